#!/usr/bin/env python3
"""Regenerate /verif/MANIFEST.json from the table below."""
import json, sys
CHECKS = {
 "C01": dict(level="exploration", ref="DESIGN.md §3 C01",
   text="Generated trees x paths x lookups x resolver flags x kernel configs, every library result compared with the harness's own raw openat2(RESOLVE_IN_ROOT|RESOLVE_NO_MAGICLINKS) on the same unmodified tree, plus containment in the tree snapshot and a syscall-count bound (loops). The thorough tier adds a coverage-guided libFuzzer campaign (fuzz/fuzz_targets/fz_lookup.rs: raw path bytes against a fixed rich tree, same kernel oracle in-target, emulated and kernel back-end). Search, not proof: absence is never established.",
   note="Trusts the running kernel's openat2 as reference semantics; openat2 absence is emulated by a seccomp ENOSYS filter on the library thread; tmpfs only; >40 link traversals outside the compared domain.",
   technique="property-based testing (proptest) with a differential kernel oracle, fork-per-case, seccomp kcfg; thorough tier: plus coverage-guided fuzzing (cargo-fuzz/libFuzzer) with the same oracle"),
 "C04": dict(level="exploration", ref="DESIGN.md §3 C04",
   text="Generated tree x sequence of 1-6 Root operations (all kinds, paths incl. '', NUL, '..', trailing slashes) run twice in fresh processes, with openat2 available and with openat2 answering ENOSYS; step-by-step differential comparison of Ok/Err, error kind, errno, returned object, type, F_GETFL status bits, FD_CLOEXEC, link bodies, and of the final path-projected tree. Search, not proof.",
   note="Backend selection by seccomp ENOSYS on the library thread (verified per case by a probe); differences must reproduce in 4 runs because openat2 fails spuriously under system-wide mount/rename activity; >40 traversals and flag sets the kernel rejects are outside the domain; tmpfs only.",
   technique="property-based differential testing (proptest) across two seccomp-selected kernel configurations"),
 "C05": dict(level="exploration", ref="DESIGN.md §3 C05, §2.6",
   text="Every system call the library thread issues inside generated calls (all operations, Rust and C API, six kernel configurations, cold start) is reported by a seccomp user-notification supervisor with what its dirfd refers to, and judged by an explicit discipline predicate (single component, never followed, fixed RESOLVE masks, literal white-list for AT_FDCWD/absolute shapes, close-on-exec requested and observed, O_NOCTTY, no legacy syscalls). A second driver repeats workloads with one failing system call (EINTR, EAGAIN, ENOMEM, EMFILE, EIO, ENOSYS at a selected index) and judges the error-path execution by the same predicate; a third driver fails every system call of one directed call in turn (EACCES, EINTR, ENOMEM, EMFILE). Covers the executions generated, not all executions.",
   note="Sees only syscalls in the filter table (all path-taking and fd-creating calls incl. legacy spellings); dirfd classification is the supervisor's fstat/fstatfs at call time; white-list is literal and printed in evidence.",
   technique="trace-invariant checking over generated workloads (proptest + seccomp user-notification observer)"),
 "C11": dict(level="exploration", ref="DESIGN.md §3 C11",
   text="Descriptor-table audit (fd -> identity, FD_CLOEXEC) by the supervisor thread before and after every generated call, success and error paths, Rust and C API, six kernel configurations: after = before + at most the returned close-on-exec descriptor; lent descriptors unchanged. The same judge runs inside the fault-injection and attacker drivers.",
   note="Audits descriptor numbers < 128 at call boundaries; tolerates the library's single process-lifetime procfs root (ino 1, close-on-exec).",
   technique="property-based testing (proptest) with a before/after descriptor-table invariant taken by a seccomp supervisor"),
 "C02": dict(level="exploration", ref="DESIGN.md §3 C02, §2.6",
   text="Generated tree x lookup x backend x attacker schedule, where the attacker's mutations are executed by a seccomp supervisor exactly before chosen system calls of the library (for a single mutation EVERY placement point of the lookup's own trace is enumerated, each on a fresh tree; multi-mutation and flip-flop schedules sampled). Oracle: the returned descriptor / link body belongs to an object that was inside the root at some moment of the call (snapshots unioned around every mutation). Search over generated trees and mutations; exhaustive only over placements of one mutation per generated case.",
   note="Pre-emption granularity = the library's own syscalls (the property's quantifier); races inside one openat2 call are not controllable this way; descriptor-local syscalls are not placement points (they commute with tree mutations).",
   technique="property-based testing with a deterministic attacker scheduled at syscall boundaries (seccomp user-notification gate), exhaustive placement enumeration per case"),
 "C03": dict(level="exploration", ref="DESIGN.md §3 C03",
   text="Generated tree x one mutating operation (all kinds, escaping/'..'-final/absolute argument paths) x backend, alone and under the syscall-boundary attacker (all placements of one mutation, or sampled multi-mutation schedules), plus two directed attacked drivers (paths climbing through '..' before naming what is created, with/without NO_SYMLINKS; recursive remove_all of wide/deep directories); frame condition over the whole sandbox: nothing that was never inside the root is removed, replaced, modified or gains an entry, and returned descriptors lie below ever-inside directories.",
   note="nlink and time stamps not compared; attacker's own objects are excluded by name; pre-emption granularity = library syscalls.",
   technique="property-based testing with whole-sandbox snapshot frame condition and syscall-boundary attacker (seccomp gate)"),
 "C10": dict(level="fault_enumeration", ref="DESIGN.md §3 C10",
   text="For each generated scenario (tree x one library call x kernel configuration x cold/warm start) the call's syscall trace is recorded and then EVERY (syscall index x applicable errno) single fault plus sticky EAGAIN-on-openat2, EAGAIN bursts of exactly one retry loop (16) and EMFILE/ENFILE-on-fd-creation sequences from every index are injected by a seccomp supervisor, one fresh run each. Oracle: returns within a syscall bound, no panic/abort, outside untouched, descriptor table intact, and success only with the un-faulted result. Exhaustive per scenario, sampled over scenarios.",
   note="Faults are injected at the syscall boundary of the library thread; close/dup are not failed; interpreted errnos (ENOENT, EEXIST, ENOTDIR, ELOOP, EXDEV) are not faults.",
   technique="exhaustive single-fault and sticky-fault injection at syscall boundaries (seccomp gate) over proptest-generated scenarios"),
 "C12": dict(level="exploration", ref="DESIGN.md §3 C12",
   text="Generated tree x mkdir_all path x mode x umask x backend, sequential and with 2-3 concurrent callers interleaved at syscall granularity by a generated schedule; snapshot-diff oracle (only a single chain of directories named after path components, correct modes, nothing else touched) and identity of the returned handle with an independent openat2 in-root resolution afterwards.",
   note="Scheduler interleaves at the callers' own syscalls (descriptor-local calls excluded), <=4 pre-emptions; the empty path is compared with '.'; paths >= PATH_MAX are not compared with the kernel.",
   technique="property-based testing with snapshot-diff oracle and a deterministic syscall-level thread scheduler (seccomp gate)"),
 "C13": dict(level="exploration", ref="DESIGN.md §3 C13",
   text="Generated trees with wide/deep bulk directories full of links (to '..', '/', outside) x path spellings x backend, sequential and with 2-3 concurrent callers under a generated syscall-level schedule; whole-sandbox snapshot oracle: only the named subtree disappears, nothing added/modified, '.'/'..' refused, concurrent callers succeed.",
   note="The entry a path names is determined by the harness's own openat2 resolution of the parent before the call; scheduler granularity = syscalls.",
   technique="property-based testing with whole-filesystem snapshot diff and deterministic syscall-level scheduling"),
 "C14": dict(level="exploration", ref="DESIGN.md §3 C14",
   text="Twin trees: the library operation on one, on the other the harness's own openat2(RESOLVE_IN_ROOT) of the parent plus the single raw *at syscall on (parent, final name); outcomes (errno), resulting trees and create_file descriptor identity/flags must match. Search over trees, operations, spellings (incl. NUL in the final component), flags, modes, umask, backends, APIs; plus an enumerated driver that sets fs.protected_regular / fs.protected_fifos to 0/1/2 and compares create_file on existing files and FIFOs in sticky directories with the raw O_CREAT open as the same user.",
   note="Kernel *at calls are the reference; O_CREAT|O_PATH excluded here (C03); the second driver temporarily changes two system-wide sysctls (lock file, restored by guard and by the next run); >40 traversals outside the domain; tmpfs only.",
   technique="property-based differential testing against raw *at system calls on a twin tree"),
 "C06": dict(level="exploration", ref="DESIGN.md §3 C06",
   text="In a private mount namespace the harness places generated sets of tmpfs/bind over-mounts on procfs entries (files, dirs, links, magic-links) and creates every kind of handle itself, so it knows which handles can see which mounts and which dentries each request walks through; every open/open_follow/readlink result is compared by identity with the same lookup on a pristine descriptor of the same procfs instance made before the mounts; visible over-mounts on the way must give EXDEV. A second driver re-runs one non-following call with one over-mount appearing / blinking / vanishing before every one of its system calls (placements enumerated through the syscall gate): success must be the genuine object, private handles must be unaffected.",
   note="Needs CAP_SYS_ADMIN (mount namespace); mount ids reported by the kernel; racing mounts are placed at syscall boundaries of the library, not inside a single openat2 walk.",
   technique="property-based testing in a mount namespace with an identity oracle against a pristine procfs view and a visibility/traversal model"),
 "C07": dict(level="exploration", ref="DESIGN.md §3 C07",
   text="Sub-paths drawn from a live enumeration of /proc, /proc/self and /proc/thread-self (plain, decorated, hostile), every op, base, flag set incl. creation flags, five handle kinds, both procfs resolvers; shape oracles (refusals, no-follow, containment) plus identity against the harness's own O_NOFOLLOW walk on the same procfs instance, plus resolver equivalence.",
   note="Identity oracles only for try_from_fd handles (same procfs instance as the harness's descriptor); thread-id dependent names are normalised for the cross-resolver comparison.",
   technique="property-based testing over live procfs enumeration with differential oracles (pristine walk, two resolvers)"),
 "C09": dict(level="exploration", ref="DESIGN.md §3 C09",
   text="Handle of every inode type placed at chosen descriptor numbers (0 included), from a thread that shares the descriptor table or has its own (decoy at the same number in the leader), or from pid 1 of a nested pid namespace whose procfs handle was made by the outer namespace's pid 1, reopened with generated flags after a generated history of renames/replacements/unlinks, on normal and over-mounted host /proc, as root and as an unprivileged user, under five kernel configurations, via Rust and C API; result must be the handle's inode with the kernel's own flags/errno (reference: the kernel's open of the same inode through a pristine fd link), ELOOP for links, refusal of creation flags, errors only from visible over-mounts.",
   note="The handle descriptor is made by the harness and wrapped with Handle::from_fd; visibility of over-mounts is derived from the caller's ability to create a private procfs and the kernel configuration.",
   technique="property-based testing with history generation and a kernel reference open"),
 "C08": dict(level="exploration", ref="DESIGN.md §3 C08",
   text="The full product of the quantifier (3240 combinations of privilege x /proc mount options x constructor x base x sub-path kind x RLIMIT_NOFILE x kernel mount-API configuration) is enumerated; each call runs under the observing gate, which counts procfs handle creations, procfs-root acquisitions, open descriptors and syscalls and unwinds runaway calls; missing paths must report ENOENT.",
   note="Needs CAP_SYS_ADMIN/CAP_SETUID; handle creations are counted by the first mount-API stage the kernel configuration offers (fsopen, open_tree, open of /proc).",
   technique="exhaustive enumeration of a finite configuration product with resource counters from a seccomp observer"),
 "C15": dict(level="exploration", ref="DESIGN.md §3 C15",
   text="All 7920 combinations of sysctl value, directory mode/owner, link owner, caller (incl. real != effective uid), link position / spelling (11, incl. no-follow lookups with trailing slashes) and {fresh process, process that already did the lookup under another effective uid} are enumerated with the real fs.protected_symlinks set; the emulated backend and the openat2 backend are compared with the kernel's own openat2(RESOLVE_IN_ROOT) issued as the same user on the same tree.",
   note="Temporarily changes the system-wide sysctl (lock file, restored by guard / signal handler / next run); finite space, enumerated completely.",
   technique="exhaustive differential testing against the kernel over a finite parameter product"),
 "C16": dict(level="exploration", ref="DESIGN.md §3 C16",
   text="1-16 free-running threads execute generated histories of failing C calls (14 error kinds), consumption, cross-thread hand-off, double reads and reads of non-ids against a harness-side model that is always a subset of what the library must hold; every id is checked for range, freshness, exactly-once retrieval and errno; plus tens of thousands of ids held alive at once for pairwise distinctness.",
   note="Stress with a schedule-independent oracle: interleavings are the OS scheduler's, not enumerated; an id range wrong on a tiny slice of draws is beyond sampling.",
   technique="model-based property testing of a concurrent history with a schedule-independent oracle (proptest + real threads)"),
 "C17": dict(level="exploration", ref="DESIGN.md §3 C17",
   text="Complete enumeration of every C function x every single invalid-argument class (and the valid call), complete enumeration of readlink body lengths 1..64 x buffer sizes 0..len+3 and NULL with canary pages and a PROT_NONE guard page flush behind the buffer; sampled long bodies / sizes and multi-invalid calls. Checks error id range, errno, no side effects, descriptor table.",
   note="Each case in its own process (a crash is a verdict); procfs link lengths start above the sandbox prefix.",
   technique="exhaustive enumeration plus property-based sampling at the C ABI with canary/guard-page oracles"),
 "C18": dict(level="exploration", ref="DESIGN.md §3 C18",
   text="Finite static part enumerated completely (symbols of the freshly built static library vs header prototypes, normalised signatures header vs Rust definitions, struct layout and enum constants as gcc sees the header vs the Rust source, every call site of the Go and Python bindings); generated part: hypothesis-generated scripts of C calls executed by a C shim compiled against the committed header and by the Rust API, outputs and resulting trees compared.",
   note="Separate Python driver (python3-vt + hypothesis, gcc, nm) so that it works even if an export is renamed; Go/cffi tool-chains absent, bindings checked textually; x86-64 type widths.",
   technique="exhaustive cross-checking of four ABI descriptions plus hypothesis-generated differential testing through a C shim"),
}
NOT_YET = {}
ALL = ["C%02d" % i for i in range(1, 19)]
def main():
    na = json.load(open('/verif/not_applicable.json')) if False else None
    checks = []
    for pid in ALL:
        if pid not in CHECKS: continue
        c = CHECKS[pid]
        checks.append({
          "property_id": pid,
          "quick_cmd": "./bin/check %s quick" % pid,
          "thorough_cmd": "./bin/check %s thorough" % pid,
          "evidence_file": "/verif/evidence/%s.json" % pid,
          "replay_cmd_template": "./bin/check %s quick --replay {path}" % pid,
          "engine": ("c18" if pid == "C18" else "pv"),
          "level_claimed": {"category": c["level"], "text": c["text"], "design_ref": c["ref"]},
          "level_note": c["note"],
          "technique": c["technique"],
        })
    notapp = [{"property_id": p, "reason": "check not built yet in this session (work in progress; see DESIGN.md §6 build order)"} for p in ALL if p not in CHECKS]
    m = {
      "version": 1,
      "setup_cmd": "cd /verif/harness && CARGO_NET_OFFLINE=true cargo build --release --offline && cd /verif/c18/ref && CARGO_NET_OFFLINE=true cargo build --release --offline",
      "hooks": {"guard": "none", "enable": "no source hooks: kernel-feature selection, fault injection and scheduling are done from outside with a seccomp user-notification gate", "baseline_off_cmd": "/verif/bin/repo-tests", "source_commits": [], "add_only": True},
      "engines": [{"name": "c18", "path": "/verif/c18", "serves_properties": ["C18"], "kind_free_text": "python3-vt driver (hypothesis) + gcc-compiled C shim against include/pathrs.h + Rust-API reference executor"}, {"name": "fuzz", "path": "/verif/fuzz", "serves_properties": ["C01"], "kind_free_text": "cargo-fuzz/libFuzzer target with in-target kernel oracle (thorough tier supplement, driven by bin/fuzz-supplement)"}, {"name": "pv", "path": "/verif/harness", "serves_properties": [c["property_id"] for c in checks], "kind_free_text": "proptest-driven generated search from a binary; fork per case; seccomp user-notification syscall gate (observe / ENOSYS kcfg / fault injection / attacker placement / thread scheduling); kernel openat2 as differential oracle"}],
      "checks": checks,
      "not_applicable": notapp,
      "notes": "Exit codes of every command: 0 held on everything explored (KNOWN-FINDING lines possible), 1 VIOLATION line(s), 2 harness/environment problem (nothing claimed). VERIF_SEED selects the PRNG seed (default 1). Known findings: /verif/known_findings.json.",
    }
    json.dump(m, open('/verif/MANIFEST.json','w'), indent=1)
    print("wrote MANIFEST.json with", len(checks), "checks,", len(notapp), "not_applicable")
main()
