#!/usr/local/bin/python3-vt
"""C18 -- the C header and the language bindings describe the exported ABI exactly.

Four independent descriptions are compared:
  1. symbols of the freshly built static library  <->  prototypes of include/pathrs.h
  2. normalised signatures of the prototypes  <->  of the #[no_mangle] extern "C" fns in src/capi/*.rs;
     struct layout and enum constants as the C compiler sees the header  <->  as the Rust source defines them
  3. behaviour: generated call scripts (hypothesis) executed by a C shim compiled against the
     committed header and linked to the library  <->  by the Rust API (no C symbol involved)
  4. every C.pathrs_* / libpathrs_so.pathrs_* use in the Go and Python bindings exists in the
     header with the arity and argument casts the call site assumes
"""
import json, os, re, shutil, subprocess, sys, tempfile, time, hashlib

VERIF = "/verif"
REPO = "/repo"
TIER = sys.argv[1] if len(sys.argv) > 1 else "quick"
SEED = int(os.environ.get("VERIF_SEED", "1"))
REPLAY = sys.argv[3] if len(sys.argv) > 3 and sys.argv[2] == "--replay" else None
T0 = time.time()
WORK = tempfile.mkdtemp(prefix="pv.c18.", dir="/dev/shm" if os.path.isdir("/dev/shm") else None)
LIBDIR = os.path.join(VERIF, "target", "c18lib")
violations = []   # (signature, message, case)
samples = []
counters = {}
nontrivial = set()
evaluations = 0

def count(k, n=1):
    counters[k] = counters.get(k, 0) + n

def fail(sig, msg, case=None):
    violations.append((sig, msg, case))

def sh(cmd, **kw):
    return subprocess.run(cmd, stdout=subprocess.PIPE, stderr=subprocess.PIPE, text=True, **kw)

def inconclusive(msg):
    print("INCONCLUSIVE: " + msg, file=sys.stderr)
    shutil.rmtree(WORK, ignore_errors=True)
    sys.exit(2)

# ---------------------------------------------------------------------------
# build
def build():
    env = dict(os.environ, CARGO_NET_OFFLINE="true", CARGO_TARGET_DIR=LIBDIR)
    r = sh(["cargo", "rustc", "--offline", "--features", "capi", "--crate-type=staticlib", "--manifest-path", REPO + "/Cargo.toml"], env=env)
    if r.returncode != 0:
        inconclusive("cannot build the static library: " + r.stderr[-2000:])
    lib = os.path.join(LIBDIR, "debug", "libpathrs.a")
    if not os.path.exists(lib):
        inconclusive("libpathrs.a missing")
    r = sh(["cargo", "build", "--release", "--offline"], cwd=VERIF + "/c18/ref", env=dict(os.environ, CARGO_NET_OFFLINE="true"))
    if r.returncode != 0:
        inconclusive("cannot build the Rust reference executor: " + r.stderr[-2000:])
    return lib, os.path.join(VERIF, "target", "c18ref", "release", "c18ref")

# ---------------------------------------------------------------------------
# header / rust parsing
def strip_comments(src):
    src = re.sub(r"/\*.*?\*/", " ", src, flags=re.S)
    src = re.sub(r"//[^\n]*", " ", src)
    return src

C_TYPES = {
    "int": "i32", "unsigned int": "u32", "uint32_t": "u32", "uint64_t": "u64", "size_t": "usize",
    "dev_t": "u64", "pathrs_proc_base_t": "u64", "void": "void",
    "const char *": "ptr", "char *": "ptr", "pathrs_error_t *": "ptr", "const pathrs_error_t *": "ptr",
}
def norm_c_type(t):
    t = re.sub(r"\s+", " ", t.strip())
    t = t.replace(" *", " *").replace("* ", "*")
    t = re.sub(r"\s*\*\s*", " *", t).strip()
    if t.endswith("*"):
        return "ptr"
    return C_TYPES.get(t, "?" + t)

def parse_header(path):
    src = strip_comments(open(path).read())
    protos = {}
    for m in re.finditer(r"([A-Za-z_][A-Za-z0-9_ \*]*?)\b(pathrs_[a-z0-9_]+)\s*\(([^;{]*?)\)\s*;", src, flags=re.S):
        ret, name, params = m.group(1), m.group(2), m.group(3)
        if name.endswith("_t"):
            continue
        ps = []
        params = params.strip()
        if params and params != "void":
            for p in params.split(","):
                p = p.strip()
                mm = re.match(r"(.*?)([A-Za-z_][A-Za-z0-9_]*)$", p, flags=re.S)
                ty = mm.group(1) if mm else p
                ps.append(norm_c_type(ty))
        protos[name] = (norm_c_type(ret), ps)
    consts = {k: int(v) for k, v in re.findall(r"(PATHRS_PROC_[A-Z_]+)\s*=\s*(\d+)", src)}
    return protos, consts

RUST_TYPES = {
    "c_int": "i32", "RawFd": "i32", "CReturn": "i32", "c_uint": "u32", "u32": "u32", "u64": "u64", "size_t": "usize",
    "dev_t": "u64", "CProcfsBase": "u64", "CBorrowedFd<'_>": "i32", "CBorrowedFd": "i32",
}
def norm_rust_type(t):
    t = t.strip()
    if t.startswith("*const") or t.startswith("*mut") or t.startswith("Option<&") or t.startswith("&"):
        return "ptr"
    return RUST_TYPES.get(t, "?" + t)

def parse_rust_exports():
    exports = {}
    for fn in sorted(os.listdir(REPO + "/src/capi")):
        if not fn.endswith(".rs"):
            continue
        src = open(os.path.join(REPO, "src/capi", fn)).read()
        src_nc = re.sub(r"//[^\n]*", "", src)
        for m in re.finditer(r"#\[no_mangle\]\s*pub\s+(?:unsafe\s+)?extern\s+\"C\"\s+fn\s+([a-z0-9_]+)\s*\((.*?)\)\s*(?:->\s*([^\{]+?))?\s*\{", src_nc, flags=re.S):
            name, params, ret = m.group(1), m.group(2), m.group(3)
            ps = []
            for p in re.split(r",(?![^<]*>)", params):
                p = p.strip()
                if not p:
                    continue
                ty = p.split(":", 1)[1] if ":" in p else p
                ps.append(norm_rust_type(ty))
            exports[name] = (norm_rust_type(ret) if ret else "void", ps)
    return exports

def parse_rust_layout():
    out = {}
    src = open(REPO + "/src/capi/procfs.rs").read()
    for k, v in re.findall(r"(PATHRS_PROC_[A-Z_]+)\s*=\s*(0x[0-9A-Fa-f_]+|\d[\d_]*)", src):
        out[k] = int(v.replace("_", ""), 0)
    m = re.search(r"#\[repr\(u(\d+)\)\]", src)
    out["sizeof_proc_base"] = int(m.group(1)) // 8 if m else None
    esrc = open(REPO + "/src/capi/error.rs").read()
    m = re.search(r"#\[repr\(([^\]]*)\)\]\s*pub struct CError\s*\{(.*?)\}", re.sub(r"//[^\n]*", "", esrc), flags=re.S)
    fields = []
    align = 1
    if m:
        am = re.search(r"align\((\d+)\)", m.group(1))
        align = int(am.group(1)) if am else 1
        for f in m.group(2).split(","):
            f = f.strip()
            if not f:
                continue
            name, ty = [x.strip() for x in f.replace("pub ", "").split(":", 1)]
            size = {"u64": 8, "i64": 8, "u32": 4, "i32": 4, "c_int": 4}.get(ty, 8 if ty.startswith("*") else None)
            fields.append((name, size))
    off = 0
    maxal = align
    for name, size in fields:
        al = size
        off = (off + al - 1) // al * al
        out["offsetof_" + name] = off
        out["sizeof_" + name] = size
        off += size
        maxal = max(maxal, al)
    out["sizeof_error"] = (off + maxal - 1) // maxal * maxal
    out["alignof_error"] = maxal
    return out

# ---------------------------------------------------------------------------
def static_part(lib):
    global evaluations
    protos, hconsts = parse_header(REPO + "/include/pathrs.h")
    exports = parse_rust_exports()
    # 1. symbols
    r = sh(["nm", "-g", "--defined-only", lib])
    syms = set(re.findall(r"\s[TtDdBbRr]\s+(pathrs_[a-z0-9_]+)$", r.stdout, flags=re.M))
    for s in sorted(set(protos) - syms):
        fail("symbol-missing:" + s, "the header declares %s but the library does not export it" % s)
    for s in sorted(syms - set(protos)):
        fail("symbol-undeclared:" + s, "the library exports %s but the header does not declare it" % s)
    evaluations += len(protos | {x: 0 for x in syms}.keys())
    count("exported_symbols", len(syms))
    count("header_prototypes", len(protos))
    # 2. signatures
    for name in sorted(set(protos) & set(exports)):
        evaluations += 1
        nontrivial.add("sig:" + name)
        if protos[name] != exports[name]:
            fail("signature:" + name, "header says %s(%s) -> %s, the Rust definition is (%s) -> %s" % (name, ", ".join(protos[name][1]), protos[name][0], ", ".join(exports[name][1]), exports[name][0]))
        for t in [protos[name][0]] + protos[name][1] + [exports[name][0]] + exports[name][1]:
            if t.startswith("?"):
                fail("signature-unknown-type:" + name, "type %s in %s is not in the type table" % (t[1:], name))
    for name in sorted(set(exports) - set(protos)):
        fail("export-undeclared:" + name, "#[no_mangle] %s has no prototype in the header" % name)
    for name in sorted(set(protos) - set(exports)):
        fail("prototype-without-definition:" + name, "prototype %s has no #[no_mangle] definition in src/capi" % name)
    samples.append({"prototype": "pathrs_inroot_rename", "header": protos.get("pathrs_inroot_rename"), "rust": exports.get("pathrs_inroot_rename")})
    # layout + constants as the C compiler sees the header
    shim = os.path.join(WORK, "shim")
    r = sh(["gcc", "-O1", "-Wall", "-I", REPO + "/include", "-o", shim, VERIF + "/c18/shim.c", lib, "-lpthread", "-ldl", "-lm"])
    if r.returncode != 0:
        fail("header-does-not-compile-or-link", "the shim does not build against the header and the library:\n" + r.stderr[-1500:])
        return None, protos
    lay = dict(l.split("=") for l in sh([shim, "--layout"]).stdout.split())
    lay = {k: int(v) for k, v in lay.items()}
    rl = parse_rust_layout()
    for k in sorted(set(lay) | set(rl)):
        evaluations += 1
        nontrivial.add("layout:" + k)
        if lay.get(k) != rl.get(k):
            fail("layout:" + k, "%s: the header gives %s, the Rust source gives %s" % (k, lay.get(k), rl.get(k)))
    for k, v in hconsts.items():
        if rl.get(k) != v:
            fail("constant:" + k, "%s is %s in the header and %s in Rust" % (k, v, rl.get(k)))
    samples.append({"layout_from_header": lay, "layout_from_rust_source": rl})
    return shim, protos

# ---------------------------------------------------------------------------
# 4. bindings
GO_CASTS = {"C.int": "i32", "C.uint": "u32", "C.ulong": "usize", "C.dev_t": "u64", "C.pathrs_proc_base_t": "u64", "C.cast_ptr": "ptr", "C.size_t": "usize"}

def split_args(s):
    out, depth, cur = [], 0, ""
    for ch in s:
        if ch in "([{":
            depth += 1
        if ch in ")]}":
            depth -= 1
        if ch == "," and depth == 0:
            out.append(cur.strip()); cur = ""
        else:
            cur += ch
    if cur.strip():
        out.append(cur.strip())
    return out

def call_sites(src, prefix):
    sites = []
    for m in re.finditer(re.escape(prefix) + r"(pathrs_[a-z0-9_]+)\s*\(", src):
        if m.group(1).endswith("_t"):
            continue  # a type conversion, not a call
        i = m.end(); depth = 1; j = i
        while j < len(src) and depth:
            if src[j] == "(":
                depth += 1
            elif src[j] == ")":
                depth -= 1
            j += 1
        sites.append((m.group(1), split_args(src[i:j - 1]), src.count("\n", 0, m.start()) + 1))
    return sites

def bindings_part(protos):
    global evaluations
    consts = {"PATHRS_PROC_ROOT", "PATHRS_PROC_SELF", "PATHRS_PROC_THREAD_SELF"}
    types = {"pathrs_proc_base_t", "pathrs_error_t"}
    # Go
    n_sites = 0
    for fn in sorted(os.listdir(REPO + "/go-pathrs")):
        if not fn.endswith(".go"):
            continue
        src = re.sub(r"//[^\n]*", "", open(os.path.join(REPO, "go-pathrs", fn)).read())
        for name, args, line in call_sites(src, "C."):
            n_sites += 1; evaluations += 1
            nontrivial.add("go:%s:%d" % (name, line))
            if name not in protos:
                fail("go-unknown-symbol:" + name, "%s:%d calls C.%s which the header does not declare" % (fn, line, name)); continue
            want = protos[name][1]
            if len(args) != len(want):
                fail("go-arity:" + name, "%s:%d calls C.%s with %d arguments, the header has %d" % (fn, line, name, len(args), len(want))); continue
            for a, w in zip(args, want):
                m = re.match(r"(C\.[a-z_]+)\(", a)
                if m and m.group(1) in GO_CASTS and GO_CASTS[m.group(1)] != w:
                    fail("go-cast:" + name, "%s:%d passes %s where the header expects %s" % (fn, line, m.group(1), w))
        for m in re.finditer(r"C\.(PATHRS_[A-Z_]+|pathrs_[a-z0-9_]+_t)\b", src):
            evaluations += 1
            if m.group(1) not in consts and m.group(1) not in types:
                fail("go-unknown-name:" + m.group(1), "%s uses C.%s which the header does not define" % (fn, m.group(1)))
    # Python
    py = REPO + "/contrib/bindings/python/pathrs/_pathrs.py"
    src = re.sub(r"#[^\n]*", "", open(py).read())
    for name, args, line in call_sites(src, "libpathrs_so."):
        n_sites += 1; evaluations += 1
        nontrivial.add("py:%s:%d" % (name, line))
        if name not in protos:
            fail("python-unknown-symbol:" + name, "_pathrs.py:%d calls %s which the header does not declare" % (line, name)); continue
        if len(args) != len(protos[name][1]):
            fail("python-arity:" + name, "_pathrs.py:%d calls %s with %d arguments, the header has %d" % (line, name, len(args), len(protos[name][1])))
    for m in re.finditer(r"libpathrs_so\.(PATHRS_[A-Z_]+)\b", src):
        evaluations += 1
        if m.group(1) not in consts:
            fail("python-unknown-name:" + m.group(1), "_pathrs.py uses %s which the header does not define" % m.group(1))
    count("binding_call_sites", n_sites)
    samples.append({"binding_call_sites_checked": n_sites})

# ---------------------------------------------------------------------------
# 3. behaviour through the header
def fresh_root(tag):
    d = os.path.join(WORK, tag)
    shutil.rmtree(d, ignore_errors=True)
    os.makedirs(d)
    os.makedirs(os.path.join(d, "d/sub"))
    open(os.path.join(d, "f"), "w").write("content")
    open(os.path.join(d, "d/inner"), "w").write("inner")
    os.symlink("f", os.path.join(d, "l"))
    os.symlink("d", os.path.join(d, "ld"))
    os.symlink("nonexistent", os.path.join(d, "dangling"))
    return d

def tree_of(d):
    out = []
    for base, dirs, files in os.walk(d):
        for n in sorted(dirs + files):
            p = os.path.join(base, n)
            st = os.lstat(p)
            body = os.readlink(p) if os.path.islink(p) else ""
            out.append((os.path.relpath(p, d), oct(st.st_mode), body))
    return sorted(out)

def run_script(shim, ref, lines):
    script = os.path.join(WORK, "script.txt")
    open(script, "w").write("\n".join(lines) + "\n")
    ra = fresh_root("A"); rb = fresh_root("B")
    a = sh([shim, ra, script], timeout=60)
    b = sh([ref, rb, script], timeout=60)
    return a, b, tree_of(ra), tree_of(rb)

def compare(lines, a, b, ta, tb):
    if a.returncode != 0:
        return "shim-crashed", "the C shim exited with %s: %s" % (a.returncode, a.stderr[-300:])
    if b.returncode != 0:
        return None, None  # reference problem: not a verdict
    la, lb = a.stdout.strip().split("\n"), b.stdout.strip().split("\n")
    for i, (x, y) in enumerate(zip(la, lb)):
        # link bodies that name the executing process itself differ between the two executors
        if i < len(lines) and lines[i].startswith("proc_readlink") and lines[i].split()[2] in ("exe", "self", "thread-self"):
            x, y = x.split(" len=")[0], y.split(" len=")[0]
        if x != y:
            op = x.split(":")[0]
            return "behaviour:" + op, "step %d `%s`\n  through the header: %s\n  through the Rust API: %s" % (i, lines[i] if i < len(lines) else "?", x, y)
    if len(la) != len(lb):
        return "behaviour:length", "outputs have different lengths"
    if ta != tb:
        return "behaviour:tree", "resulting trees differ: %s" % sorted(set(ta) ^ set(tb))[:6]
    return None, None

def behaviour_part(shim, ref):
    global evaluations
    from hypothesis import given, settings, seed, strategies as st, HealthCheck, Phase
    names = ["f", "d", "d/inner", "d/sub", "l", "ld", "dangling", "new", "d/new", "ld/new", "new/deep/er", "missing/x", "f/x", "..", ".", "d/..", "ld/../f", "@EMPTY", "/f", "d/", "l/", "a b".replace(" ", "_")]
    path = st.sampled_from(names)
    oflags = st.sampled_from([0, 1, 2, 0o200000 | 0, 0o10000000, 0o10000000 | 0o400000, 0o2000, 0o4000, 0o100, 0o200 | 0o100, 0o1000 | 1, 0o20200000])
    mode = st.sampled_from([0o644, 0o755, 0o700, 0o4755, 0o2755, 0o1777, 0, 0o40755, 0o100644])
    base = st.sampled_from(["root", "self", "thread-self", "0", "1", "152919584", "0xffffffffffffffff", "0x091D5E1F00000000"])
    ppath = st.sampled_from(["status", "cwd", "exe", "fd", "fd/0", "self", "thread-self", "uptime", "missing", "..", "root/etc", "@EMPTY", "stat", "net"])
    size = st.sampled_from([0, 1, 2, 3, 4, 64, 4096])
    step = st.one_of(
        st.tuples(st.just("resolve"), path), st.tuples(st.just("resolve_nofollow"), path),
        st.tuples(st.just("open"), path, oflags), st.tuples(st.just("creat"), path, oflags, mode),
        st.tuples(st.just("mkdir"), path, mode), st.tuples(st.just("mkdir_all"), path, mode),
        st.tuples(st.just("mknod"), path, st.sampled_from([0o10644, 0o100600, 0o140644, 0o20666, 0o644, 0o120777, 0o40700]), st.sampled_from([0, 259])),
        st.tuples(st.just("symlink"), path, path), st.tuples(st.just("hardlink"), path, path),
        st.tuples(st.just("unlink"), path), st.tuples(st.just("rmdir"), path), st.tuples(st.just("remove_all"), path),
        st.tuples(st.just("rename"), path, path, st.sampled_from([0, 1, 2, 3, 4])),
        st.tuples(st.just("readlink"), path, size), st.tuples(st.just("proc_readlink"), base, ppath, size),
        st.tuples(st.just("proc_open"), base, ppath, st.sampled_from([0, 0o400000, 0o10000000, 0o10000000 | 0o400000, 0o200000])),
        st.tuples(st.just("reopen"), path, st.sampled_from([0, 1, 2, 0o10000000, 0o200000, 0o100, 0o20200000 | 2])),
    )
    n_cases = 600 if TIER == "quick" else 6000
    found = {}

    def fmt(s):
        # opening a FIFO the script made earlier must not block the executor
        if s[0] in ("open", "reopen"):
            s = (s[0], s[1], s[2] | 0o4000)
        return " ".join(str(x) if not isinstance(x, int) else ("0%o" % x if x else "0") for x in s)

    @seed(SEED)
    @settings(max_examples=n_cases, database=None, deadline=None, derandomize=False, suppress_health_check=list(HealthCheck), phases=[Phase.generate, Phase.shrink])
    @given(st.lists(step, min_size=1, max_size=12))
    def prop(steps):
        global evaluations
        lines = [fmt(s) for s in steps]
        a, b, ta, tb = run_script(shim, ref, lines)
        evaluations += len(lines)
        for s in steps:
            nontrivial.add("call:" + fmt(s))
        if len(samples) < 6:
            samples.append({"script": lines, "through_header": a.stdout.strip().split("\n")[:12]})
        sig, msg = compare(lines, a, b, ta, tb)
        if sig:
            # both executors use the kernel back-end: openat2 fails spuriously (EAGAIN /
            # "racing filesystem changes") while mounts or renames happen anywhere on
            # the machine. The two trees are private, so a difference counts only if it
            # shows again, with the same signature, in three fresh executions.
            for _ in range(3):
                a2, b2, ta2, tb2 = run_script(shim, ref, lines)
                sig2, msg2 = compare(lines, a2, b2, ta2, tb2)
                if sig2 != sig:
                    count("transient_differences_not_reproduced", 1)
                    return
            found["v"] = (sig, msg, lines)
            raise AssertionError(sig)

    try:
        prop()
    except AssertionError:
        sig, msg, lines = found["v"]
        fail(sig, msg, {"script": lines})
    except BaseException as ex:
        # hypothesis reports a failure that does not reproduce on its own re-execution
        # as FlakyFailure: by the rule above that is environmental, not a verdict
        if isinstance(ex, subprocess.TimeoutExpired) or "TimeoutExpired" in repr(ex)[:300]:
            print("INCONCLUSIVE: an executor did not finish a script within its watchdog", file=sys.stderr)
            shutil.rmtree(WORK, ignore_errors=True)
            sys.exit(2)
        if "Flaky" in type(ex).__name__ or "Flaky" in repr(ex)[:200]:
            count("flaky_reports_discarded", 1)
        elif found.get("v"):
            # several distinct failures are reported as a group
            sig, msg, lines = found["v"]
            fail(sig, msg, {"script": lines})
        else:
            raise
    count("scripts", n_cases)

def replay_script(shim, ref, lines):
    a, b, ta, tb = run_script(shim, ref, lines)
    sig, msg = compare(lines, a, b, ta, tb)
    if sig:
        fail(sig, msg, {"script": lines})

# ---------------------------------------------------------------------------
def main():
    lib, ref = build()
    shim, protos = static_part(lib)
    bindings_part(protos)
    if shim:
        if REPLAY:
            case = json.load(open(REPLAY)).get("case") or {}
            if case.get("script"):
                replay_script(shim, ref, case["script"])
        else:
            for f in sorted(os.listdir(VERIF + "/replays/C18/regress")) if os.path.isdir(VERIF + "/replays/C18/regress") else []:
                case = json.load(open(os.path.join(VERIF, "replays/C18/regress", f))).get("case") or {}
                if case.get("script"):
                    replay_script(shim, ref, case["script"])
            behaviour_part(shim, ref)
    known = []
    try:
        known = [k for k in json.load(open(VERIF + "/known_findings.json"))["findings"] if k["property"] == "C18" and k["status"] == "open"]
    except Exception:
        pass
    rc = 0
    os.makedirs(VERIF + "/replays/C18", exist_ok=True)
    real = 0
    for sig, msg, case in violations:
        k = [x for x in known if x["signature"] == sig]
        if k and not REPLAY:
            print("KNOWN-FINDING: property=C18 %s [%s]" % (k[0]["description"], sig))
            continue
        real += 1
        body = json.dumps({"property": "C18", "check": "abi", "signature": sig, "message": msg, "case": case}, indent=1)
        path = os.path.join(VERIF, "replays/C18", re.sub(r"[^A-Za-z0-9_.-]", "_", sig)[:80] + "-" + hashlib.sha1(body.encode()).hexdigest()[:8] + ".json")
        if not REPLAY:
            open(path, "w").write(body)
        print("VIOLATION property=C18 replay=%s" % (REPLAY or path))
        print("  signature: " + sig)
        for l in msg.split("\n")[:30]:
            print("  " + l[:600])
        rc = 1
    if not REPLAY:
        ev = {
            "property_id": "C18", "tier": TIER, "seed": SEED, "level": "exploration",
            "coverage": {
                "evaluations": evaluations, "distinct_nontrivial": len(nontrivial),
                "rule": "exhaustive static part: every pathrs_* symbol of the freshly built static library vs every prototype of include/pathrs.h (both directions); normalised (width/signedness/pointer) signature of every prototype vs every #[no_mangle] extern \"C\" fn in src/capi/*.rs; sizeof/alignof/offsetof of pathrs_error_t and the PATHRS_PROC_* values as gcc sees the header vs the layout and constants in the Rust source; every C.pathrs_*/C.PATHRS_* use in go-pathrs/*.go and every libpathrs_so.* use in _pathrs.py: name exists, arity matches, Go casts match the parameter types. Generated part (hypothesis, seed VERIF_SEED): scripts of 1-12 C calls (all functions, valid and invalid arguments, procfs bases by name and by invalid number, error retrieval through the header's struct) run by a C shim compiled against the committed header and linked to the library, and by the Rust API; outputs (ok/err, errno, fd type/access mode/O_PATH/cloexec, link bytes) and resulting trees must be identical. non-trivial = distinct declarations, layout keys, call sites and distinct generated calls",
                "samples": samples[:10], "counters": counters, "exhaustive": True,
                "exhaustive_scope": "symbols, prototypes, signatures, layout, constants, binding call sites",
            },
            "assumptions": ["x86-64 SysV type widths", "Go and cffi tool-chains are not installed: bindings are checked textually"],
            "wall_s": round(time.time() - T0, 2), "violations": real,
        }
        os.makedirs(VERIF + "/evidence", exist_ok=True)
        json.dump(ev, open(VERIF + "/evidence/C18.json", "w"), indent=1)
        print("C18 %s: evaluations=%d distinct_nontrivial=%d violations=%d wall=%.1fs" % (TIER, evaluations, len(nontrivial), real, time.time() - T0), file=sys.stderr)
    elif rc == 0:
        print("replay passed: " + REPLAY)
    shutil.rmtree(WORK, ignore_errors=True)
    sys.exit(rc)

main()
