//! C18 reference executor: the same call script through the Rust API only
//! (no C symbol is referenced, so it builds whatever the C exports look like).
use pathrs::error::ErrorKind;
use pathrs::flags::{OpenFlags, RenameFlags};
use pathrs::procfs::{ProcfsBase, ProcfsHandle};
use pathrs::{InodeType, Root};
use std::fs::Permissions;
use std::io::{BufRead, BufReader};
use std::os::unix::fs::PermissionsExt;
use std::os::unix::io::{AsRawFd, OwnedFd};

fn errno_of(k: ErrorKind) -> i64 {
    match k {
        ErrorKind::OsError(Some(e)) => e as i64,
        ErrorKind::OsError(None) => 0,
        ErrorKind::InvalidArgument => libc::EINVAL as i64,
        ErrorKind::SafetyViolation => libc::EXDEV as i64,
        ErrorKind::NotImplemented => libc::ENOSYS as i64,
        _ => 0,
    }
}
fn err(e: pathrs::error::Error) {
    println!("err errno={} desc=yes", errno_of(e.kind()));
}
fn ftype(fd: i32) -> &'static str {
    let mut st: libc::stat = unsafe { std::mem::zeroed() };
    if unsafe { libc::fstat(fd, &mut st) } < 0 {
        return "?";
    }
    match st.st_mode & libc::S_IFMT {
        libc::S_IFDIR => "dir",
        libc::S_IFREG => "file",
        libc::S_IFLNK => "symlink",
        libc::S_IFIFO => "fifo",
        libc::S_IFCHR => "chr",
        _ => "other",
    }
}
fn fd_line<T: Into<OwnedFd>>(r: Result<T, pathrs::error::Error>) {
    match r {
        Err(e) => err(e),
        Ok(f) => {
            let fd: OwnedFd = f.into();
            let raw = fd.as_raw_fd();
            let fl = unsafe { libc::fcntl(raw, libc::F_GETFL) };
            let cx = unsafe { libc::fcntl(raw, libc::F_GETFD) };
            println!("ok fd type={} acc={} path={} cloexec={}", ftype(raw), fl & libc::O_ACCMODE, (fl & libc::O_PATH != 0) as i32, (cx & libc::FD_CLOEXEC != 0) as i32);
        }
    }
}
fn unit(r: Result<(), pathrs::error::Error>) {
    match r {
        Err(e) => err(e),
        Ok(()) => println!("ok"),
    }
}
fn num(s: &str) -> u64 {
    if let Some(h) = s.strip_prefix("0x") {
        u64::from_str_radix(h, 16).unwrap_or(0)
    } else if s.len() > 1 && s.starts_with('0') {
        u64::from_str_radix(&s[1..], 8).unwrap_or(0)
    } else {
        s.parse().unwrap_or(0)
    }
}
fn arg(s: &str) -> &str {
    if s == "@EMPTY" {
        ""
    } else {
        s
    }
}
fn base(s: &str) -> Option<ProcfsBase> {
    match s {
        "root" => Some(ProcfsBase::ProcRoot),
        "self" => Some(ProcfsBase::ProcSelf),
        "thread-self" => Some(ProcfsBase::ProcThreadSelf),
        _ => None,
    }
}
fn bytes_line(b: &[u8], sz: usize) {
    let c = b.len().min(sz);
    let hex: String = b[..c].iter().map(|x| format!("{:02x}", x)).collect();
    println!("ok len={} bytes={}", b.len(), hex);
}

fn main() {
    let args: Vec<String> = std::env::args().collect();
    let root = match Root::open(&args[1]) {
        Ok(r) => r,
        Err(e) => {
            print!("open_root ");
            err(e);
            return;
        }
    };
    let f = std::fs::File::open(&args[2]).expect("script");
    let procfs = ProcfsHandle::new().expect("procfs");
    for line in BufReader::new(f).lines() {
        let line = line.unwrap();
        let t: Vec<&str> = line.split_whitespace().collect();
        if t.is_empty() {
            continue;
        }
        print!("{}: ", t[0]);
        match t[0] {
            "resolve" => fd_line(root.resolve(arg(t[1]))),
            "resolve_nofollow" => fd_line(root.resolve_nofollow(arg(t[1]))),
            "open" => fd_line(root.open_subpath(arg(t[1]), OpenFlags::from_bits_retain(num(t[2]) as i32))),
            "creat" => fd_line(root.create_file(arg(t[1]), OpenFlags::from_bits_retain(num(t[2]) as i32), &Permissions::from_mode(num(t[3]) as u32 & !libc::S_IFMT))),
            "mkdir" => unit(root.create(arg(t[1]), &InodeType::Directory(Permissions::from_mode(num(t[2]) as u32 & !libc::S_IFMT)))),
            "mkdir_all" => fd_line(root.mkdir_all(arg(t[1]), &Permissions::from_mode(num(t[2]) as u32))),
            "mknod" => {
                let m = num(t[2]) as u32;
                let perm = Permissions::from_mode(m & !libc::S_IFMT);
                let dev = num(t[3]);
                let it = match m & libc::S_IFMT {
                    libc::S_IFREG => Some(InodeType::File(perm)),
                    libc::S_IFDIR => Some(InodeType::Directory(perm)),
                    libc::S_IFIFO => Some(InodeType::Fifo(perm)),
                    libc::S_IFCHR => Some(InodeType::CharacterDevice(perm, dev)),
                    libc::S_IFBLK => Some(InodeType::BlockDevice(perm, dev)),
                    _ => None,
                };
                match it {
                    Some(it) => unit(root.create(arg(t[1]), &it)),
                    None => println!("err errno={} desc=yes", if m & libc::S_IFMT == libc::S_IFSOCK { libc::ENOSYS } else { libc::EINVAL }),
                }
            }
            "symlink" => unit(root.create(arg(t[1]), &InodeType::Symlink(arg(t[2]).into()))),
            "hardlink" => unit(root.create(arg(t[1]), &InodeType::Hardlink(arg(t[2]).into()))),
            "unlink" => unit(root.remove_file(arg(t[1]))),
            "rmdir" => unit(root.remove_dir(arg(t[1]))),
            "remove_all" => unit(root.remove_all(arg(t[1]))),
            "rename" => unit(root.rename(arg(t[1]), arg(t[2]), RenameFlags::from_bits_retain(num(t[3]) as u32))),
            "readlink" => match root.readlink(arg(t[1])) {
                Err(e) => err(e),
                Ok(p) => bytes_line(p.as_os_str().as_encoded_bytes(), (num(t[2]) as usize).min(4096)),
            },
            "proc_readlink" => match base(t[1]) {
                None => println!("err errno={} desc=yes", libc::EINVAL),
                Some(b) => match procfs.readlink(b, arg(t[2])) {
                    Err(e) => err(e),
                    Ok(p) => bytes_line(p.as_os_str().as_encoded_bytes(), (num(t[3]) as usize).min(4096)),
                },
            },
            "proc_open" => match base(t[1]) {
                None => println!("err errno={} desc=yes", libc::EINVAL),
                Some(b) => {
                    let fl = OpenFlags::from_bits_retain(num(t[3]) as i32);
                    if fl.contains(OpenFlags::O_NOFOLLOW) {
                        fd_line(procfs.open(b, arg(t[2]), fl))
                    } else {
                        fd_line(procfs.open_follow(b, arg(t[2]), fl))
                    }
                }
            },
            "reopen" => match root.resolve(arg(t[1])) {
                Err(e) => {
                    print!("(resolve) ");
                    err(e)
                }
                Ok(h) => fd_line(h.reopen(OpenFlags::from_bits_retain(num(t[2]) as i32))),
            },
            _ => println!("unknown-op"),
        }
    }
}
