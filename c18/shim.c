/* C18 shim: executes a call script through the *committed header* only. */
#define _GNU_SOURCE
#include <stdio.h>
#include <stdlib.h>
#include <string.h>
#include <unistd.h>
#include <fcntl.h>
#include <errno.h>
#include <sys/stat.h>
#include <sys/sysmacros.h>
#include <stddef.h>
#include "pathrs.h"

static void report_err(int ret) {
    pathrs_error_t *e = pathrs_errorinfo(ret);
    if (!e) { printf("err noinfo ret=%d\n", ret); return; }
    printf("err errno=%llu desc=%s\n", (unsigned long long)e->saved_errno,
           (e->description && e->description[0]) ? "yes" : "EMPTY");
    pathrs_errorinfo_free(e);
}
static const char *ftype(int fd) {
    struct stat st;
    if (fstat(fd, &st) < 0) return "?";
    switch (st.st_mode & S_IFMT) {
    case S_IFDIR: return "dir"; case S_IFREG: return "file"; case S_IFLNK: return "symlink";
    case S_IFIFO: return "fifo"; case S_IFCHR: return "chr"; default: return "other"; }
}
static void report_fd(int ret) {
    if (ret < 0) { report_err(ret); return; }
    int fl = fcntl(ret, F_GETFL);
    int cx = fcntl(ret, F_GETFD);
    printf("ok fd type=%s acc=%d path=%d cloexec=%d\n", ftype(ret), fl & O_ACCMODE, !!(fl & O_PATH), !!(cx & FD_CLOEXEC));
    close(ret);
}
static void report_unit(int ret) { if (ret < 0) report_err(ret); else printf("ok\n"); }
static pathrs_proc_base_t base_of(const char *s) {
    if (!strcmp(s, "root")) return PATHRS_PROC_ROOT;
    if (!strcmp(s, "self")) return PATHRS_PROC_SELF;
    if (!strcmp(s, "thread-self")) return PATHRS_PROC_THREAD_SELF;
    return (pathrs_proc_base_t)strtoull(s, NULL, 0);
}
static const char *arg(const char *s) { return strcmp(s, "@EMPTY") ? s : ""; }

int main(int argc, char **argv) {
    if (argc >= 2 && !strcmp(argv[1], "--layout")) {
        printf("sizeof_error=%zu\n", sizeof(pathrs_error_t));
        printf("alignof_error=%zu\n", _Alignof(pathrs_error_t));
        printf("offsetof_saved_errno=%zu\n", offsetof(pathrs_error_t, saved_errno));
        printf("offsetof_description=%zu\n", offsetof(pathrs_error_t, description));
        printf("sizeof_saved_errno=%zu\n", sizeof(((pathrs_error_t *)0)->saved_errno));
        printf("sizeof_description=%zu\n", sizeof(((pathrs_error_t *)0)->description));
        printf("sizeof_proc_base=%zu\n", sizeof(pathrs_proc_base_t));
        printf("PATHRS_PROC_ROOT=%llu\n", (unsigned long long)PATHRS_PROC_ROOT);
        printf("PATHRS_PROC_SELF=%llu\n", (unsigned long long)PATHRS_PROC_SELF);
        printf("PATHRS_PROC_THREAD_SELF=%llu\n", (unsigned long long)PATHRS_PROC_THREAD_SELF);
        return 0;
    }
    if (argc < 3) { fprintf(stderr, "usage: shim ROOT SCRIPT\n"); return 2; }
    int root = pathrs_open_root(argv[1]);
    if (root < 0) { printf("open_root "); report_err(root); return 0; }
    FILE *f = fopen(argv[2], "r");
    if (!f) return 2;
    char line[8192];
    while (fgets(line, sizeof line, f)) {
        char *tok[8]; int n = 0;
        for (char *p = strtok(line, " \n"); p && n < 8; p = strtok(NULL, " \n")) tok[n++] = p;
        if (!n) continue;
        const char *op = tok[0];
        printf("%s: ", op);
        if (!strcmp(op, "resolve")) report_fd(pathrs_inroot_resolve(root, arg(tok[1])));
        else if (!strcmp(op, "resolve_nofollow")) report_fd(pathrs_inroot_resolve_nofollow(root, arg(tok[1])));
        else if (!strcmp(op, "open")) report_fd(pathrs_inroot_open(root, arg(tok[1]), (int)strtol(tok[2], NULL, 0)));
        else if (!strcmp(op, "creat")) report_fd(pathrs_inroot_creat(root, arg(tok[1]), (int)strtol(tok[2], NULL, 0), (unsigned)strtoul(tok[3], NULL, 0)));
        else if (!strcmp(op, "mkdir")) report_unit(pathrs_inroot_mkdir(root, arg(tok[1]), (unsigned)strtoul(tok[2], NULL, 0)));
        else if (!strcmp(op, "mkdir_all")) report_fd(pathrs_inroot_mkdir_all(root, arg(tok[1]), (unsigned)strtoul(tok[2], NULL, 0)));
        else if (!strcmp(op, "mknod")) report_unit(pathrs_inroot_mknod(root, arg(tok[1]), (unsigned)strtoul(tok[2], NULL, 0), (dev_t)strtoull(tok[3], NULL, 0)));
        else if (!strcmp(op, "symlink")) report_unit(pathrs_inroot_symlink(root, arg(tok[1]), arg(tok[2])));
        else if (!strcmp(op, "hardlink")) report_unit(pathrs_inroot_hardlink(root, arg(tok[1]), arg(tok[2])));
        else if (!strcmp(op, "unlink")) report_unit(pathrs_inroot_unlink(root, arg(tok[1])));
        else if (!strcmp(op, "rmdir")) report_unit(pathrs_inroot_rmdir(root, arg(tok[1])));
        else if (!strcmp(op, "remove_all")) report_unit(pathrs_inroot_remove_all(root, arg(tok[1])));
        else if (!strcmp(op, "rename")) report_unit(pathrs_inroot_rename(root, arg(tok[1]), arg(tok[2]), (uint32_t)strtoul(tok[3], NULL, 0)));
        else if (!strcmp(op, "readlink") || !strcmp(op, "proc_readlink")) {
            char buf[4096]; memset(buf, 0, sizeof buf);
            size_t sz = (size_t)strtoul(tok[!strcmp(op, "readlink") ? 2 : 3], NULL, 0);
            if (sz > sizeof buf) sz = sizeof buf;
            int r = !strcmp(op, "readlink") ? pathrs_inroot_readlink(root, arg(tok[1]), buf, sz)
                                            : pathrs_proc_readlink(base_of(tok[1]), arg(tok[2]), buf, sz);
            if (r < 0) report_err(r);
            else { size_t c = (size_t)r < sz ? (size_t)r : sz; printf("ok len=%d bytes=", r); for (size_t i = 0; i < c; i++) printf("%02x", (unsigned char)buf[i]); printf("\n"); }
        }
        else if (!strcmp(op, "proc_open")) report_fd(pathrs_proc_open(base_of(tok[1]), arg(tok[2]), (int)strtol(tok[3], NULL, 0)));
        else if (!strcmp(op, "reopen")) {
            int h = pathrs_inroot_resolve(root, arg(tok[1]));
            if (h < 0) { printf("(resolve) "); report_err(h); }
            else { report_fd(pathrs_reopen(h, (int)strtol(tok[2], NULL, 0))); close(h); }
        }
        else printf("unknown-op\n");
        fflush(stdout);
    }
    close(root);
    return 0;
}
