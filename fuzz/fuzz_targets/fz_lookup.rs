//! Coverage-guided supplement for C01 / C04: byte-level path fuzzing of the
//! lookup entry points against the kernel's own openat2(RESOLVE_IN_ROOT).
//!
//! input  = [selector byte][path bytes…]
//! oracle = raw openat2(RESOLVE_IN_ROOT|RESOLVE_NO_MAGICLINKS) issued by a helper
//!          thread that does NOT carry the seccomp filter; the fuzzing thread
//!          answers ENOSYS to openat2 (unless PVFZ_BACKEND=kernel), so libpathrs
//!          runs its emulated resolver.
//! The tree is fixed (built once per process) and never modified by a lookup.
#![no_main]

use libfuzzer_sys::fuzz_target;
use std::collections::{HashMap, HashSet};
use std::ffi::{CString, OsStr};
use std::os::unix::ffi::OsStrExt;
use std::os::unix::io::{AsRawFd, OwnedFd};
use std::path::{Path, PathBuf};
use std::sync::mpsc::{channel, Receiver, Sender};
use std::sync::{Mutex, OnceLock};

const RESOLVE_NO_MAGICLINKS: u64 = 0x02;
const RESOLVE_IN_ROOT: u64 = 0x10;

#[repr(C)]
struct OpenHow {
    flags: u64,
    mode: u64,
    resolve: u64,
}

#[derive(Debug, Clone, PartialEq, Eq)]
enum K {
    Obj { dev: u64, ino: u64, ftype: u32 },
    Bytes(Vec<u8>),
    Err(i32),
}

fn errno() -> i32 {
    unsafe { *libc::__errno_location() }
}

fn raw_openat2(root: i32, path: &[u8], flags: i32) -> Result<i32, i32> {
    let c = match CString::new(path.to_vec()) {
        Ok(c) => c,
        Err(_) => return Err(libc::EINVAL),
    };
    let how = OpenHow { flags: (flags | libc::O_CLOEXEC) as u64, mode: 0, resolve: RESOLVE_IN_ROOT | RESOLVE_NO_MAGICLINKS };
    for _ in 0..200 {
        let r = unsafe { libc::syscall(libc::SYS_openat2, root, c.as_ptr(), &how as *const OpenHow, std::mem::size_of::<OpenHow>()) };
        if r >= 0 {
            return Ok(r as i32);
        }
        let e = errno();
        if e != libc::EAGAIN {
            return Err(e);
        }
    }
    Err(libc::EAGAIN)
}

fn ident(fd: i32) -> (u64, u64, u32) {
    let mut st: libc::stat = unsafe { std::mem::zeroed() };
    let r = unsafe { libc::fstat(fd, &mut st) };
    assert!(r == 0, "fstat");
    (st.st_dev as u64, st.st_ino as u64, st.st_mode & libc::S_IFMT)
}

#[derive(Clone, Copy, Debug, PartialEq, Eq)]
enum Op {
    Resolve,
    ResolveNofollow,
    Readlink,
    Open(i32),
}

const OPEN_FLAGS: [i32; 6] = [
    libc::O_RDONLY | libc::O_NONBLOCK,
    libc::O_PATH,
    libc::O_PATH | libc::O_NOFOLLOW,
    libc::O_RDONLY | libc::O_DIRECTORY,
    libc::O_RDONLY | libc::O_NOFOLLOW | libc::O_NONBLOCK,
    libc::O_PATH | libc::O_DIRECTORY,
];

fn decode(sel: u8) -> Op {
    match sel % 10 {
        0 | 1 => Op::Resolve,
        2 => Op::ResolveNofollow,
        3 => Op::Readlink,
        n => Op::Open(OPEN_FLAGS[(n - 4) as usize]),
    }
}

fn kernel(root: i32, op: Op, path: &[u8]) -> K {
    let flags = match op {
        Op::Resolve => libc::O_PATH,
        Op::ResolveNofollow | Op::Readlink => libc::O_PATH | libc::O_NOFOLLOW,
        Op::Open(f) => f,
    };
    match raw_openat2(root, path, flags) {
        Err(e) => K::Err(e),
        Ok(fd) => {
            let r = if op == Op::Readlink {
                let mut buf = vec![0u8; 8192];
                let n = unsafe { libc::readlinkat(fd, b"\0".as_ptr() as *const libc::c_char, buf.as_mut_ptr() as *mut libc::c_char, buf.len()) };
                if n < 0 {
                    K::Err(errno())
                } else {
                    buf.truncate(n as usize);
                    K::Bytes(buf)
                }
            } else {
                let (dev, ino, ftype) = ident(fd);
                K::Obj { dev, ino, ftype }
            };
            unsafe { libc::close(fd) };
            r
        }
    }
}

struct Ctx {
    root: pathrs::Root,
    inside: HashSet<(u64, u64)>,
    /// upper bound on link traversals caused by naming this link once (None: unbounded)
    hops: HashMap<Vec<u8>, Option<u32>>,
    tx: Mutex<Sender<(Op, Vec<u8>)>>,
    rx: Mutex<Receiver<K>>,
    kernel_backend: bool,
    strict_report: bool,
}

static CTX: OnceLock<Ctx> = OnceLock::new();

fn links() -> Vec<(&'static str, String)> {
    let mut v: Vec<(&'static str, String)> = vec![
        ("lrel", "a/b".into()),
        ("labs", "/a/b".into()),
        ("lup", "../../..".into()),
        ("lesc", "/../../etc".into()),
        ("lout", "../outside".into()),
        ("ldang", "nope".into()),
        ("lself", "lself".into()),
        ("lp1", "lp2".into()),
        ("lp2", "lp1".into()),
        ("ldot", ".".into()),
        ("lslash", "a/".into()),
        ("lfile", "f".into()),
        ("lfslash", "f/".into()),
        ("ldd", "a/b/../..".into()),
        ("lroot", "/".into()),
        ("lrootdd", "/..".into()),
        ("lempty2", "a//b/./".into()),
        ("lfifo", "p".into()),
        ("a/lpar", "../d".into()),
        ("a/b/lup2", "../../d/e".into()),
        ("d/labs2", "/a/b/c/f".into()),
        ("d/lnest", "../lrel/c".into()),
        ("lodd", "\u{7f} x".into()),
    ];
    // chain: k40 -> k39 -> … -> k1 -> a (naming k40 costs 40 traversals, k41 costs 41)
    v
}

fn build(base: &Path) -> PathBuf {
    let root = base.join("root");
    let _ = std::fs::remove_dir_all(base);
    for d in ["root/a/b/c", "root/d/e", "outside/x", "root/\u{7f} x"] {
        std::fs::create_dir_all(base.join(d)).unwrap();
    }
    for f in ["root/f", "root/a/f", "root/a/b/c/f", "outside/secret", "root/d/e/g"] {
        std::fs::write(base.join(f), f.as_bytes()).unwrap();
    }
    let p = CString::new(root.join("p").as_os_str().as_bytes()).unwrap();
    assert!(unsafe { libc::mkfifo(p.as_ptr(), 0o644) } == 0);
    for (name, body) in links() {
        std::os::unix::fs::symlink(OsStr::new(&body), root.join(name)).unwrap();
    }
    for i in 1..=41 {
        let body = if i == 1 { "a".to_string() } else { format!("k{}", i - 1) };
        std::os::unix::fs::symlink(body, root.join(format!("k{}", i))).unwrap();
    }
    std::fs::hard_link(root.join("f"), root.join("d/hard")).unwrap();
    root
}

fn hop_table() -> HashMap<Vec<u8>, Option<u32>> {
    // upper bound per link basename: 1 + sum over the components of its body that are link names
    let mut bodies: HashMap<String, String> = HashMap::new();
    for (name, body) in links() {
        bodies.insert(name.rsplit('/').next().unwrap().to_string(), body);
    }
    for i in 1..=41 {
        bodies.insert(format!("k{}", i), if i == 1 { "a".to_string() } else { format!("k{}", i - 1) });
    }
    fn cost(name: &str, bodies: &HashMap<String, String>, stack: &mut Vec<String>) -> Option<u32> {
        if stack.iter().any(|s| s == name) {
            return None;
        }
        stack.push(name.to_string());
        let mut total: u32 = 1;
        let mut res = Some(());
        for c in bodies[name].split('/') {
            if bodies.contains_key(c) {
                match cost(c, bodies, stack) {
                    Some(n) => total = total.saturating_add(n),
                    None => res = None,
                }
            }
        }
        stack.pop();
        res.map(|_| total)
    }
    let mut out = HashMap::new();
    for name in bodies.keys() {
        out.insert(name.as_bytes().to_vec(), cost(name, &bodies, &mut vec![]));
    }
    out
}

fn walk(dir: &Path, inside: &mut HashSet<(u64, u64)>) {
    use std::os::unix::fs::MetadataExt;
    let m = std::fs::symlink_metadata(dir).unwrap();
    inside.insert((m.dev(), m.ino()));
    if m.is_dir() {
        for e in std::fs::read_dir(dir).unwrap() {
            walk(&e.unwrap().path(), inside);
        }
    }
}

fn install_enosys_for_openat2() {
    // classic BPF: if nr == SYS_openat2 return ERRNO(ENOSYS) else ALLOW
    #[repr(C)]
    struct Filter {
        code: u16,
        jt: u8,
        jf: u8,
        k: u32,
    }
    #[repr(C)]
    struct Prog {
        len: u16,
        filter: *const Filter,
    }
    let prog = [
        Filter { code: 0x20, jt: 0, jf: 0, k: 0 },                                   // LD nr
        Filter { code: 0x15, jt: 0, jf: 1, k: libc::SYS_openat2 as u32 },            // JEQ openat2
        Filter { code: 0x06, jt: 0, jf: 0, k: 0x0005_0000 | libc::ENOSYS as u32 },  // RET ERRNO
        Filter { code: 0x06, jt: 0, jf: 0, k: 0x7fff_0000 },                         // RET ALLOW
    ];
    let p = Prog { len: prog.len() as u16, filter: prog.as_ptr() };
    unsafe {
        assert!(libc::prctl(libc::PR_SET_NO_NEW_PRIVS, 1, 0, 0, 0) == 0);
        assert!(libc::syscall(libc::SYS_seccomp, 1 /*SET_MODE_FILTER*/, 0, &p as *const Prog) == 0, "seccomp: {}", errno());
    }
}

fn init() -> Ctx {
    unsafe { libc::mallopt(libc::M_ARENA_MAX, 1) };
    let kernel_backend = std::env::var("PVFZ_BACKEND").map(|v| v == "kernel").unwrap_or(false);
    let base = PathBuf::from(format!("/dev/shm/pvfz.{}", std::process::id()));
    let rootp = build(&base);
    let mut inside = HashSet::new();
    walk(&rootp, &mut inside);
    // oracle thread: created before the filter, so it keeps a working openat2
    let (tx, orx) = channel::<(Op, Vec<u8>)>();
    let (otx, rx) = channel::<K>();
    let rp = rootp.clone();
    std::thread::spawn(move || {
        let c = CString::new(rp.as_os_str().as_bytes()).unwrap();
        let rootfd = unsafe { libc::open(c.as_ptr(), libc::O_PATH | libc::O_DIRECTORY | libc::O_CLOEXEC) };
        assert!(rootfd >= 0);
        while let Ok((op, path)) = orx.recv() {
            let _ = otx.send(kernel(rootfd, op, &path));
        }
    });
    if !kernel_backend {
        install_enosys_for_openat2();
    }
    let root = pathrs::Root::open(&rootp).expect("Root::open");
    // remove the tree when the process ends normally
    extern "C" fn cleanup() {
        let _ = std::fs::remove_dir_all(format!("/dev/shm/pvfz.{}", std::process::id()));
    }
    unsafe { libc::atexit(cleanup) };
    Ctx { root, inside, hops: hop_table(), tx: Mutex::new(tx), rx: Mutex::new(rx), kernel_backend, strict_report: true }
}

fn os_errno(e: &pathrs::error::Error) -> Option<i32> {
    match e.kind() {
        pathrs::error::ErrorKind::OsError(n) => n,
        pathrs::error::ErrorKind::InvalidArgument => Some(libc::EINVAL),
        _ => None,
    }
}

#[derive(Debug)]
enum L {
    Obj { dev: u64, ino: u64, ftype: u32 },
    Bytes(Vec<u8>),
    Err(Option<i32>, String),
}

fn library(ctx: &Ctx, op: Op, path: &[u8]) -> L {
    let p = Path::new(OsStr::from_bytes(path));
    let of = |fd: OwnedFd| {
        let (dev, ino, ftype) = ident(fd.as_raw_fd());
        L::Obj { dev, ino, ftype }
    };
    let er = |e: pathrs::error::Error| L::Err(os_errno(&e), format!("{:?}", e.kind()));
    match op {
        Op::Resolve => ctx.root.resolve(p).map(|h| of(OwnedFd::from(h))).unwrap_or_else(er),
        Op::ResolveNofollow => ctx.root.resolve_nofollow(p).map(|h| of(OwnedFd::from(h))).unwrap_or_else(er),
        Op::Readlink => ctx.root.readlink(p).map(|b| L::Bytes(b.as_os_str().as_bytes().to_vec())).unwrap_or_else(er),
        Op::Open(f) => ctx.root.open_subpath(p, pathrs::flags::OpenFlags::from_bits_retain(f)).map(|f| of(OwnedFd::from(f))).unwrap_or_else(er),
    }
}

fn agree(l: &L, k: &K) -> bool {
    match (l, k) {
        (L::Obj { dev, ino, ftype }, K::Obj { dev: d, ino: i, ftype: t }) => dev == d && ino == i && ftype == t,
        (L::Bytes(a), K::Bytes(b)) => a == b,
        (L::Err(Some(e), _), K::Err(k)) => e == k,
        _ => false,
    }
}

/// Upper bound on the link traversals a lookup of `path` can need (None: unbounded).
fn traversal_bound(ctx: &Ctx, path: &[u8]) -> Option<u32> {
    let mut total = 0u32;
    for c in path.split(|&b| b == b'/') {
        if let Some(h) = ctx.hops.get(c) {
            total = total.saturating_add((*h)?);
        }
    }
    Some(total)
}

fuzz_target!(|data: &[u8]| {
    let ctx = CTX.get_or_init(init);
    if data.is_empty() {
        return;
    }
    let op = decode(data[0]);
    let path = &data[1..];
    // the property compares paths shorter than PATH_MAX
    if path.len() >= 4095 {
        return;
    }
    let ask = |path: &[u8]| -> K {
        ctx.tx.lock().unwrap().send((op, path.to_vec())).unwrap();
        ctx.rx.lock().unwrap().recv().unwrap()
    };
    let mut lib = library(ctx, op, path);
    let mut kern = ask(path);
    // openat2 fails spuriously (EAGAIN, or ELOOP because internal restarts eat the
    // link budget) while mounts or renames happen anywhere on the machine; the tree
    // is never modified, so a disagreement counts only if it persists.
    let carved = |kern: &K| *kern == K::Err(libc::ELOOP) && traversal_bound(ctx, path).map(|n| n > 40).unwrap_or(true);
    let mut n = 0;
    while n < 25 && !agree(&lib, &kern) && !carved(&kern) {
        std::thread::sleep(std::time::Duration::from_millis(if n < 5 { 1 } else { 20 }));
        lib = library(ctx, op, path);
        kern = ask(path);
        n += 1;
    }
    if ctx.kernel_backend && matches!(&lib, L::Err(Some(libc::EAGAIN), _) | L::Err(None, _)) {
        return;
    }
    if let L::Obj { dev, ino, .. } = &lib {
        if !ctx.inside.contains(&(*dev, *ino)) {
            eprintln!("FZ-VIOLATION escape: {:?} {:?} -> {:?} (kernel {:?})", op, String::from_utf8_lossy(path), lib, kern);
            std::process::abort();
        }
    }
    if !agree(&lib, &kern) {
        // carve-out: kernel link budget is 40, the emulated one 128
        if kern == K::Err(libc::ELOOP) && traversal_bound(ctx, path).map(|n| n > 40).unwrap_or(true) {
            return;
        }
        if kern == K::Err(libc::EAGAIN) {
            return;
        }
        if ctx.strict_report {
            eprintln!("FZ-VIOLATION mismatch: {:?} {:?}\n  library: {:?}\n  kernel : {:?}", op, String::from_utf8_lossy(path), lib, kern);
        }
        std::process::abort();
    }
});
