//! Attacker mutations applied by the gate's supervisor at chosen syscall
//! indices of a library call, and the "ever inside" bookkeeping.

use crate::gate::*;
use crate::gen::pick;
use crate::sandbox::*;
use crate::util::*;
use proptest::prelude::*;
use serde::{Deserialize, Serialize};
use std::collections::BTreeSet;
use std::ffi::CString;
use std::path::{Path, PathBuf};
use std::sync::{Arc, Mutex};

#[derive(Clone, Debug, PartialEq, Eq, Hash, Serialize, Deserialize)]
pub enum MutKind {
    /// rename root/p -> stash/m<N>
    MoveOut,
    /// RENAME_EXCHANGE root/p <-> fresh directory (with children a..e and a link up -> ..)
    ExchangeDir,
    /// RENAME_EXCHANGE root/p <-> symlink to the outside directory (absolute)
    ExchangeLinkOutsideDir,
    /// RENAME_EXCHANGE root/p <-> symlink to an outside file (absolute)
    ExchangeLinkOutsideFile,
    /// RENAME_EXCHANGE root/p <-> symlink "../.." / ".." / "../../.."
    ExchangeLinkDotdot(u8),
    /// RENAME_EXCHANGE root/p <-> regular file
    ExchangeFile,
    /// move p away and put a symlink to the outside in its place
    ReplaceByLinkOutside,
    /// remove the subtree
    Remove,
    /// RENAME_EXCHANGE root/p <-> root/q (q chosen by selector)
    SwapSibling(u16),
    /// rename SB/root -> SB/root.moved
    RenameRoot,
}

#[derive(Clone, Debug, PartialEq, Eq, Hash, Serialize, Deserialize)]
pub struct MutRecipe {
    pub kind: MutKind,
    /// which touched entry is the target
    pub target: u16,
    /// use the parent directory of the chosen entry instead
    pub parent: bool,
    /// undo the mutation k placement points later (flip-flop), 0 = never
    pub restore_after: u8,
}

pub fn mut_recipe() -> impl Strategy<Value = MutRecipe> {
    let kind = prop_oneof![
        7 => Just(MutKind::MoveOut),
        5 => Just(MutKind::ExchangeDir),
        3 => Just(MutKind::ExchangeLinkOutsideDir),
        2 => Just(MutKind::ExchangeLinkOutsideFile),
        3 => (0u8..3).prop_map(MutKind::ExchangeLinkDotdot),
        1 => Just(MutKind::ExchangeFile),
        2 => Just(MutKind::ReplaceByLinkOutside),
        1 => Just(MutKind::Remove),
        2 => any::<u16>().prop_map(MutKind::SwapSibling),
        1 => Just(MutKind::RenameRoot),
    ];
    (kind, any::<u16>(), prop_oneof![1 => Just(false), 1 => Just(true)], prop_oneof![3 => Just(0u8), 1 => 1u8..4]).prop_map(|(kind, target, parent, restore_after)| MutRecipe { kind, target, parent, restore_after })
}

/// A concrete mutation on paths relative to SB/root.
#[derive(Clone, Debug, PartialEq, Eq, Serialize, Deserialize)]
pub struct Mutation {
    pub kind: MutKind,
    pub target: B,
    pub other: Option<B>,
}

pub fn instantiate(r: &MutRecipe, touched: &[B], all: &[B]) -> Mutation {
    let pool: &[B] = if touched.is_empty() { all } else { touched };
    let mut target = if pool.is_empty() { B::new("a") } else { pool[pick(r.target, pool.len())].clone() };
    if r.parent {
        let (par, _) = crate::gen::split_parent(&target);
        if !par.0.is_empty() {
            target = par;
        }
    }
    let other = match &r.kind {
        MutKind::SwapSibling(s) => {
            let cands: Vec<&B> = all.iter().filter(|q| **q != target && !under(q, &target) && !under(&target, q)).collect();
            if cands.is_empty() {
                None
            } else {
                Some(cands[pick(*s, cands.len())].clone())
            }
        }
        _ => None,
    };
    Mutation { kind: r.kind.clone(), target, other }
}

fn c(p: &Path) -> CString {
    CString::new(p.as_os_str().as_encoded_bytes()).unwrap()
}

fn rename(a: &Path, b: &Path, flags: u32) -> Result<(), i32> {
    let r = unsafe { libc::renameat2(libc::AT_FDCWD, c(a).as_ptr(), libc::AT_FDCWD, c(b).as_ptr(), flags) };
    if r == 0 {
        Ok(())
    } else {
        Err(errno())
    }
}

pub struct Attacker {
    pub base: PathBuf,
    pub root_name: String,
    pub counter: u32,
    /// harness-side O_PATH descriptor of the root directory (follows renames)
    pub rootfd: i32,
    pub inside: BTreeSet<Ident>,
    pub inside_bodies: BTreeSet<B>,
    pub log: Vec<String>,
    /// undo actions: (a, b, flags) renames to perform in reverse
    undo: Vec<(PathBuf, PathBuf, u32)>,
    pub applied: u32,
    pub failed: u32,
}

impl Attacker {
    pub fn new(sb: &Sandbox) -> Attacker {
        let rootfd = openat_raw(libc::AT_FDCWD, sb.root().as_os_str().as_encoded_bytes(), libc::O_PATH | libc::O_DIRECTORY, 0).expect("open root");
        let mut a = Attacker { base: sb.base.clone(), root_name: "root".into(), counter: 0, rootfd, inside: BTreeSet::new(), inside_bodies: BTreeSet::new(), log: vec![], undo: vec![], applied: 0, failed: 0 };
        a.note_inside();
        a
    }
    fn root(&self) -> PathBuf {
        self.base.join(&self.root_name)
    }
    fn stash(&self) -> PathBuf {
        self.base.join("stash")
    }
    fn outside(&self) -> PathBuf {
        self.base.join("outside")
    }
    /// Everything reachable from the root right now counts as "was inside".
    pub fn note_inside(&mut self) {
        let snap = Snapshot::take(self.rootfd);
        for e in snap.map.values() {
            self.inside.insert(e.id());
            if let Some(b) = &e.body {
                self.inside_bodies.insert(b.clone());
            }
        }
    }
    fn fresh(&mut self, prefix: &str) -> PathBuf {
        self.counter += 1;
        self.stash().join(format!("{}{}", prefix, self.counter))
    }
    /// The attacker works inside the root only: a target whose parent chain crosses a
    /// link (planted by an earlier mutation) would make the attacker itself reach
    /// outside the root through its own link.
    fn parent_is_plain(&self, rel: &std::path::Path) -> bool {
        let mut cur = self.root();
        if let Some(par) = rel.parent() {
            for c in par.components() {
                match c {
                    std::path::Component::Normal(n) => cur.push(n),
                    std::path::Component::CurDir => continue,
                    _ => return false,
                }
                match std::fs::symlink_metadata(&cur) {
                    Ok(md) if md.is_dir() => {}
                    _ => return false,
                }
            }
        }
        true
    }

    pub fn apply(&mut self, m: &Mutation) {
        self.note_inside();
        if !matches!(m.kind, MutKind::RenameRoot) && (!self.parent_is_plain(m.target.as_path()) || m.other.as_ref().map(|q| !self.parent_is_plain(q.as_path())).unwrap_or(false)) {
            self.failed += 1;
            self.log.push(format!("skipped {:?} on {}: its parent is no longer a plain directory inside the root", m.kind, m.target));
            return;
        }
        let t = self.root().join(m.target.as_path());
        let res: Result<(), i32> = (|| match &m.kind {
            MutKind::MoveOut => {
                // out of the root: into the stash, or into the sibling "<root> (deleted)"
                let pick = m.target.0.iter().map(|&b| b as usize).sum::<usize>() + self.counter as usize;
                let dst = if pick % 2 == 0 {
                    self.fresh("m")
                } else {
                    self.counter += 1;
                    self.base.join("root (deleted)").join(format!("m{}", self.counter))
                };
                rename(&t, &dst, 0)?;
                self.undo.push((dst, t.clone(), 0));
                Ok(())
            }
            MutKind::ExchangeDir => {
                let d = self.fresh("x");
                mkdir_p(&d);
                for n in ["a", "b", "c", "d", "e"] {
                    let _ = std::fs::write(d.join(n), format!("attacker-{}", n));
                }
                let _ = std::os::unix::fs::symlink("..", d.join("up"));
                rename(&t, &d, libc::RENAME_EXCHANGE)?;
                self.undo.push((t.clone(), d, libc::RENAME_EXCHANGE));
                Ok(())
            }
            MutKind::ExchangeLinkOutsideDir | MutKind::ExchangeLinkOutsideFile | MutKind::ExchangeLinkDotdot(_) => {
                let l = self.fresh("l");
                let body: PathBuf = match &m.kind {
                    MutKind::ExchangeLinkOutsideDir => self.outside().join("dir"),
                    MutKind::ExchangeLinkOutsideFile => self.outside().join("secret.f"),
                    MutKind::ExchangeLinkDotdot(k) => PathBuf::from(["..", "../..", "../../.."][*k as usize % 3]),
                    _ => unreachable!(),
                };
                std::os::unix::fs::symlink(&body, &l).map_err(|e| e.raw_os_error().unwrap_or(0))?;
                rename(&t, &l, libc::RENAME_EXCHANGE)?;
                self.undo.push((t.clone(), l, libc::RENAME_EXCHANGE));
                Ok(())
            }
            MutKind::ExchangeFile => {
                let f = self.fresh("f");
                std::fs::write(&f, "attacker-file").map_err(|e| e.raw_os_error().unwrap_or(0))?;
                rename(&t, &f, libc::RENAME_EXCHANGE)?;
                self.undo.push((t.clone(), f, libc::RENAME_EXCHANGE));
                Ok(())
            }
            MutKind::ReplaceByLinkOutside => {
                let dst = self.fresh("o");
                rename(&t, &dst, 0)?;
                std::os::unix::fs::symlink(self.outside().join("dir"), &t).map_err(|e| e.raw_os_error().unwrap_or(0))?;
                Ok(())
            }
            MutKind::Remove => {
                rm_rf(&t);
                Ok(())
            }
            MutKind::SwapSibling(_) => {
                let q = match &m.other {
                    Some(q) => self.root().join(q.as_path()),
                    None => return Err(0),
                };
                rename(&t, &q, libc::RENAME_EXCHANGE)?;
                self.undo.push((t.clone(), q, libc::RENAME_EXCHANGE));
                Ok(())
            }
            MutKind::RenameRoot => {
                let from = self.root();
                let to = self.base.join("root.moved");
                rename(&from, &to, 0)?;
                self.root_name = "root.moved".into();
                Ok(())
            }
        })();
        match res {
            Ok(()) => {
                self.applied += 1;
                self.log.push(format!("applied {:?} on {}", m.kind, m.target));
            }
            Err(e) => {
                self.failed += 1;
                self.log.push(format!("could not apply {:?} on {} ({})", m.kind, m.target, errno_name(e)));
            }
        }
        self.note_inside();
    }
    pub fn restore_last(&mut self) {
        self.note_inside();
        if let Some((a, b, fl)) = self.undo.pop() {
            match rename(&a, &b, fl) {
                Ok(()) => self.log.push("restored".into()),
                Err(e) => self.log.push(format!("restore failed ({})", errno_name(e))),
            }
        }
        self.note_inside();
    }
}

impl Drop for Attacker {
    fn drop(&mut self) {
        close(self.rootfd);
    }
}

/// Is this traced syscall a point where a tree mutation can make a difference?
pub fn is_placement_point(sys: &Sys, sandbox_dev: u64) -> bool {
    let d = match desc(sys.nr) {
        Some(d) => d,
        None => return false,
    };
    if d.neutral {
        return false;
    }
    for (i, (_, k)) in sys.dirfds.iter().enumerate() {
        match k {
            FdKind::Inode { dev, .. } if *dev == sandbox_dev => return true,
            FdKind::Procfs { .. } => {
                // reading the kernel's path of a descriptor: .../fd/<n>
                if let Some(p) = sys.paths.get(i) {
                    if !p.0.is_empty() && p.0.iter().all(|c| c.is_ascii_digit()) {
                        return true;
                    }
                }
            }
            _ => {}
        }
    }
    false
}

/// Entries (paths relative to the root) the traced call touched by name.
pub fn touched_entries(trace: &[Sys], snap_root: &Snapshot) -> Vec<B> {
    let mut out: Vec<B> = vec![];
    let byid = snap_root.by_ident();
    for sys in trace {
        for (i, (_, k)) in sys.dirfds.iter().enumerate() {
            if let FdKind::Inode { dev, ino, .. } = k {
                if let Some(labels) = byid.get(&Ident { dev: *dev, ino: *ino }) {
                    if let Some(p) = sys.paths.get(i) {
                        if p.0.is_empty() || p.0 == b"." || p.0 == b".." || p.0.contains(&b'/') {
                            continue;
                        }
                        let e = labels[0].join(&p.0);
                        // names that do not exist (yet) are kept: a mutating
                        // call may be about to create them
                        if !out.contains(&e) {
                            out.push(e);
                        }
                    }
                }
            }
        }
    }
    out
}

pub type Shared<T> = Arc<Mutex<T>>;
