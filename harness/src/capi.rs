//! extern "C" declarations of the library's C API (symbols come from the rlib
//! built with `features = ["capi"]`), mirroring include/pathrs.h.

use crate::exec::{Obj, Out};
use crate::util::*;
use libc::{c_char, c_int, c_uint, dev_t, size_t};

#[repr(C)]
pub struct PathrsError {
    pub saved_errno: u64,
    pub description: *const c_char,
}

pub const PATHRS_PROC_ROOT: u64 = 0x5001_FFFF;
pub const PATHRS_PROC_SELF: u64 = 0x091D_5E1F;
pub const PATHRS_PROC_THREAD_SELF: u64 = 0x3EAD_5E1F;

extern "C" {
    pub fn pathrs_open_root(path: *const c_char) -> c_int;
    pub fn pathrs_reopen(fd: c_int, flags: c_int) -> c_int;
    pub fn pathrs_inroot_resolve(root_fd: c_int, path: *const c_char) -> c_int;
    pub fn pathrs_inroot_resolve_nofollow(root_fd: c_int, path: *const c_char) -> c_int;
    pub fn pathrs_inroot_open(root_fd: c_int, path: *const c_char, flags: c_int) -> c_int;
    pub fn pathrs_inroot_readlink(root_fd: c_int, path: *const c_char, linkbuf: *mut c_char, linkbuf_size: size_t) -> c_int;
    pub fn pathrs_inroot_rename(root_fd: c_int, src: *const c_char, dst: *const c_char, flags: u32) -> c_int;
    pub fn pathrs_inroot_rmdir(root_fd: c_int, path: *const c_char) -> c_int;
    pub fn pathrs_inroot_unlink(root_fd: c_int, path: *const c_char) -> c_int;
    pub fn pathrs_inroot_remove_all(root_fd: c_int, path: *const c_char) -> c_int;
    pub fn pathrs_inroot_creat(root_fd: c_int, path: *const c_char, flags: c_int, mode: c_uint) -> c_int;
    pub fn pathrs_inroot_mkdir(root_fd: c_int, path: *const c_char, mode: c_uint) -> c_int;
    pub fn pathrs_inroot_mkdir_all(root_fd: c_int, path: *const c_char, mode: c_uint) -> c_int;
    pub fn pathrs_inroot_mknod(root_fd: c_int, path: *const c_char, mode: c_uint, dev: dev_t) -> c_int;
    pub fn pathrs_inroot_symlink(root_fd: c_int, path: *const c_char, target: *const c_char) -> c_int;
    pub fn pathrs_inroot_hardlink(root_fd: c_int, path: *const c_char, target: *const c_char) -> c_int;
    pub fn pathrs_proc_open(base: u64, path: *const c_char, flags: c_int) -> c_int;
    pub fn pathrs_proc_readlink(base: u64, path: *const c_char, linkbuf: *mut c_char, linkbuf_size: size_t) -> c_int;
    pub fn pathrs_errorinfo(err_id: c_int) -> *mut PathrsError;
    pub fn pathrs_errorinfo_free(ptr: *mut PathrsError);
}

pub const MAX_ERRNO: i32 = 4095;

/// Consume an error id: (saved_errno, description).
pub fn take_error(id: c_int) -> Option<(u64, String)> {
    let p = unsafe { pathrs_errorinfo(id) };
    if p.is_null() {
        return None;
    }
    let (e, d) = unsafe {
        let e = (*p).saved_errno;
        let d = if (*p).description.is_null() { String::new() } else { std::ffi::CStr::from_ptr((*p).description).to_string_lossy().to_string() };
        (e, d)
    };
    unsafe { pathrs_errorinfo_free(p) };
    Some((e, d))
}

/// Turn a C return value into an `Out` (consuming the error id on failure).
/// `fd`: the value is a descriptor on success.
pub fn c_out(ret: c_int, is_fd: bool) -> (Out, Option<i32>) {
    if ret >= 0 {
        if is_fd {
            (Out::Fd(Obj::of_fd(ret)), Some(ret))
        } else {
            (Out::Unit, None)
        }
    } else {
        match take_error(ret) {
            Some((e, desc)) => {
                let kind = if ret >= -MAX_ERRNO {
                    format!("c-bad-id({})", ret)
                } else if desc.contains("violation of safety requirement") {
                    "safety".to_string()
                } else if desc.starts_with("invalid ") && e == libc::EINVAL as u64 {
                    "inval".to_string()
                } else {
                    "os".to_string()
                };
                (Out::Err { kind, errno: if e == 0 { None } else { Some(e as i32) } }, None)
            }
            None => (Out::Err { kind: format!("c-no-errorinfo({})", ret), errno: None }, None),
        }
    }
}

pub fn catch_c<F: FnOnce() -> c_int>(f: F) -> Result<c_int, Out> {
    match std::panic::catch_unwind(std::panic::AssertUnwindSafe(f)) {
        Ok(v) => Ok(v),
        Err(p) => Err(Out::Panicked(crate::exec::panic_msg(&p))),
    }
}

pub fn cpath(b: &B) -> std::ffi::CString {
    b.cstr()
}
