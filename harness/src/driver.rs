//! Check driver: tiers, lanes, proptest loop with shrinking and replay files,
//! known findings, evidence files.

use crate::util::*;
use proptest::strategy::Strategy;
use proptest::test_runner::{Config, RngSeed, TestCaseError, TestError, TestRunner};
use serde::{Deserialize, Serialize};
use serde_json::{json, Value};
use std::cell::{Cell, RefCell};
use std::collections::{BTreeMap, BTreeSet};
use std::path::{Path, PathBuf};

pub const VERIF: &str = "/verif";

#[derive(Clone, Copy, Debug, PartialEq, Eq, Serialize, Deserialize)]
pub enum Tier {
    Quick,
    Thorough,
}

impl Tier {
    pub fn name(&self) -> &'static str {
        match self {
            Tier::Quick => "quick",
            Tier::Thorough => "thorough",
        }
    }
    pub fn pick<T>(&self, quick: T, thorough: T) -> T {
        match self {
            Tier::Quick => quick,
            Tier::Thorough => thorough,
        }
    }
}

#[derive(Clone, Debug)]
pub struct Ctx {
    pub id: String,
    pub tier: Tier,
    pub seed: u64,
    pub lane: u32,
    pub lanes: u32,
    /// replay mode: known findings are not tolerated
    pub strict: bool,
    pub known: Vec<KnownFinding>,
}

impl Ctx {
    pub fn lane_seed(&self, salt: &str) -> u64 {
        self.seed ^ fnv_str(&self.id) ^ fnv_str(salt).rotate_left(17) ^ ((self.lane as u64 + 1).wrapping_mul(0x9e3779b97f4a7c15))
    }
    /// share of `total` cases this lane has to run
    pub fn share(&self, total: u32) -> u32 {
        let base = total / self.lanes;
        let extra = if self.lane < total % self.lanes { 1 } else { 0 };
        base + extra
    }
    pub fn is_known_open(&self, sig: &str) -> bool {
        !self.strict && self.known.iter().any(|k| k.property == self.id && k.status == "open" && k.signature == sig)
    }
}

#[derive(Clone, Debug, Default, Serialize, Deserialize)]
pub struct Stats {
    pub evaluations: u64,
    pub nontrivial: BTreeSet<u64>,
    pub classes: BTreeMap<String, u64>,
    pub samples: Vec<Value>,
    pub class_samples: BTreeMap<String, Value>,
    pub counters: BTreeMap<String, u64>,
    pub inconclusive: u64,
}

impl Stats {
    pub fn eval(&mut self) {
        self.evaluations += 1;
    }
    pub fn class(&mut self, c: &str) {
        *self.classes.entry(c.to_string()).or_insert(0) += 1;
    }
    pub fn count(&mut self, c: &str, n: u64) {
        *self.counters.entry(c.to_string()).or_insert(0) += n;
    }
    pub fn nontrivial_key(&mut self, key: &str) {
        self.nontrivial.insert(fnv_str(key));
    }
    pub fn sample<F: FnOnce() -> Value>(&mut self, f: F) {
        if self.samples.len() < 6 {
            self.samples.push(f());
        }
    }
    pub fn class_sample<F: FnOnce() -> Value>(&mut self, class: &str, f: F) {
        if self.class_samples.len() < 40 && !self.class_samples.contains_key(class) {
            self.class_samples.insert(class.to_string(), f());
        }
    }
    pub fn merge(&mut self, o: Stats) {
        self.evaluations += o.evaluations;
        self.nontrivial.extend(o.nontrivial);
        for (k, v) in o.classes {
            *self.classes.entry(k).or_insert(0) += v;
        }
        for (k, v) in o.counters {
            *self.counters.entry(k).or_insert(0) += v;
        }
        for s in o.samples {
            if self.samples.len() < 6 {
                self.samples.push(s);
            }
        }
        for (k, v) in o.class_samples {
            if self.class_samples.len() < 40 {
                self.class_samples.entry(k).or_insert(v);
            }
        }
        self.inconclusive += o.inconclusive;
    }
}

#[derive(Clone, Debug, Serialize, Deserialize)]
pub struct Violation {
    /// which sub-check of the property produced it (selects the replay function)
    pub check: String,
    pub signature: String,
    pub message: String,
    pub case: Value,
}

pub enum Fail {
    Violation(Violation),
    /// harness / environment problem: never a violation
    Harness(String),
}

impl From<Violation> for Fail {
    fn from(v: Violation) -> Self {
        Fail::Violation(v)
    }
}

#[derive(Clone, Debug, Default, Serialize, Deserialize)]
pub struct LaneResult {
    pub stats: Stats,
    pub violations: Vec<(Violation, String)>,
    pub known_hits: BTreeMap<String, u64>,
    pub harness_errors: Vec<String>,
    pub notes: Vec<String>,
}

#[derive(Clone, Debug, Serialize, Deserialize)]
pub struct KnownFinding {
    pub property: String,
    pub signature: String,
    pub status: String,
    #[serde(default)]
    pub commit: Option<String>,
    pub description: String,
    #[serde(default)]
    pub replay: Option<String>,
}

pub fn load_known() -> Vec<KnownFinding> {
    let p = Path::new(VERIF).join("known_findings.json");
    match std::fs::read(&p) {
        Ok(d) => {
            let v: Value = serde_json::from_slice(&d).expect("known_findings.json must parse");
            serde_json::from_value(v["findings"].clone()).expect("known_findings.json: findings[]")
        }
        Err(_) => vec![],
    }
}

pub fn slug(s: &str) -> String {
    s.chars().map(|c| if c.is_ascii_alphanumeric() || c == '-' || c == '_' || c == '.' { c } else { '_' }).take(80).collect()
}

pub fn write_replay(id: &str, v: &Violation) -> String {
    let dir = Path::new(VERIF).join("replays").join(id);
    mkdir_p(&dir);
    let body = json!({"property": id, "check": v.check, "signature": v.signature, "message": v.message, "case": v.case});
    let text = serde_json::to_string_pretty(&body).unwrap();
    let name = format!("{}-{:08x}.json", slug(&v.signature), fnv(text.as_bytes()) as u32);
    let path = dir.join(name);
    std::fs::write(&path, text).unwrap();
    path.to_string_lossy().to_string()
}

pub type CheckFn<'a, C> = dyn Fn(&C, &mut Stats) -> Result<(), Fail> + 'a;

/// Generated search for one sub-check. Stops at the first unknown violation,
/// shrinks it and records it with a replay file.
pub fn search<C, S>(ctx: &Ctx, lr: &mut LaneResult, name: &str, total_cases: u32, strat: S, check: &CheckFn<C>)
where
    C: std::fmt::Debug + Clone + Serialize,
    S: Strategy<Value = C>,
{
    search_opts(ctx, lr, name, total_cases, strat, check, 200)
}

/// Like `search`, with an explicit bound on shrink iterations (expensive checks).
pub fn search_opts<C, S>(ctx: &Ctx, lr: &mut LaneResult, name: &str, total_cases: u32, strat: S, check: &CheckFn<C>, max_shrink_iters: u32)
where
    C: std::fmt::Debug + Clone + Serialize,
    S: Strategy<Value = C>,
{
    let mut remaining = ctx.share(total_cases);
    let mut attempt = 0u64;
    while remaining > 0 && attempt < 40 {
        let cfg = Config {
            cases: remaining,
            rng_seed: RngSeed::Fixed(ctx.lane_seed(name) ^ attempt.wrapping_mul(0x5851f42d4c957f2d)),
            failure_persistence: None,
            max_shrink_iters,
            max_shrink_time: 0,
            verbose: 0,
            max_global_rejects: 100_000,
            max_local_rejects: 100_000,
            ..Config::default()
        };
        attempt += 1;
        let mut runner = TestRunner::new(cfg);
        let stats = RefCell::new(std::mem::take(&mut lr.stats));
        let failed = Cell::new(false);
        let done = Cell::new(0u32);
        let known_hits: RefCell<BTreeMap<String, u64>> = RefCell::new(BTreeMap::new());
        let harness: RefCell<Vec<String>> = RefCell::new(Vec::new());
        let res = runner.run(&strat, |case| {
            let mut scratch = Stats::default();
            let r = if failed.get() { check(&case, &mut scratch) } else { check(&case, &mut stats.borrow_mut()) };
            if !failed.get() {
                done.set(done.get() + 1);
            }
            match r {
                Ok(()) => Ok(()),
                Err(Fail::Harness(m)) => {
                    stats.borrow_mut().inconclusive += 1;
                    // a single case that outlives its watchdog is abandoned (counted as
                    // inconclusive in the evidence); only a pattern of them, or any other
                    // harness problem, makes the whole run inconclusive
                    let slow = m.contains("timed out");
                    if slow {
                        stats.borrow_mut().count("cases_abandoned_by_watchdog", 1);
                    }
                    let abandoned = *stats.borrow().counters.get("cases_abandoned_by_watchdog").unwrap_or(&0);
                    let mut h = harness.borrow_mut();
                    if (!slow || abandoned > 3) && h.len() < 20 {
                        h.push(format!("[{}] {}", name, m));
                    }
                    Ok(())
                }
                Err(Fail::Violation(v)) => {
                    if ctx.is_known_open(&v.signature) {
                        if !failed.get() {
                            *known_hits.borrow_mut().entry(v.signature.clone()).or_insert(0) += 1;
                        }
                        Ok(())
                    } else {
                        failed.set(true);
                        Err(TestCaseError::fail(v.signature))
                    }
                }
            }
        });
        lr.stats = stats.into_inner();
        for (k, v) in known_hits.into_inner() {
            *lr.known_hits.entry(k).or_insert(0) += v;
        }
        lr.harness_errors.extend(harness.into_inner());
        remaining = remaining.saturating_sub(done.get());
        match res {
            Ok(()) => return,
            Err(TestError::Abort(r)) => {
                lr.harness_errors.push(format!("[{}] proptest aborted: {}", name, r));
                return;
            }
            Err(TestError::Fail(reason, minimal)) => {
                // The shrunk case has to fail again, from scratch, to count.
                let mut confirmed = None;
                for _ in 0..3 {
                    let mut scratch = Stats::default();
                    if let Err(Fail::Violation(v)) = check(&minimal, &mut scratch) {
                        if !ctx.is_known_open(&v.signature) {
                            confirmed = Some(v);
                            break;
                        }
                    }
                }
                match confirmed {
                    Some(v) => {
                        let path = write_replay(&ctx.id, &v);
                        lr.violations.push((v, path));
                        return;
                    }
                    None => {
                        lr.stats.count("unconfirmed_transient_failures", 1);
                        lr.notes.push(format!("[{}] a failure ({}) did not reproduce on its shrunk case and was dropped; search continued", name, reason));
                    }
                }
            }
        }
    }
}

/// Run `check`; a violation only counts if it shows again in each of `reruns`
/// fresh re-executions of the same case (openat2 -- the oracle and one of the
/// back-ends -- fails spuriously with EAGAIN/ELOOP while other processes mount
/// or rename).
pub fn stable<C>(check: &CheckFn<C>, case: &C, stats: &mut Stats, reruns: usize) -> Result<(), Fail> {
    match check(case, stats) {
        Err(Fail::Violation(v)) => {
            for _ in 0..reruns {
                let mut scratch = Stats::default();
                match check(case, &mut scratch) {
                    Ok(()) => {
                        stats.count("violations_not_reproduced_on_immediate_rerun", 1);
                        return Ok(());
                    }
                    Err(Fail::Harness(m)) => return Err(Fail::Harness(m)),
                    Err(Fail::Violation(_)) => {}
                }
            }
            Err(Fail::Violation(v))
        }
        other => other,
    }
}

/// Run a fixed list of cases (regression corpus, exhaustive enumerations).
pub fn run_fixed<C: Serialize>(ctx: &Ctx, lr: &mut LaneResult, name: &str, cases: &[C], check: &CheckFn<C>) {
    for (i, c) in cases.iter().enumerate() {
        if (i as u32) % ctx.lanes != ctx.lane {
            continue;
        }
        if !lr.violations.is_empty() {
            return;
        }
        match check(c, &mut lr.stats) {
            Ok(()) => {}
            Err(Fail::Harness(m)) => {
                lr.stats.inconclusive += 1;
                let slow = m.contains("timed out");
                if slow {
                    lr.stats.count("cases_abandoned_by_watchdog", 1);
                }
                let abandoned = *lr.stats.counters.get("cases_abandoned_by_watchdog").unwrap_or(&0);
                if (!slow || abandoned > 3) && lr.harness_errors.len() < 20 {
                    lr.harness_errors.push(format!("[{}] {}", name, m));
                }
            }
            Err(Fail::Violation(v)) => {
                if ctx.is_known_open(&v.signature) {
                    *lr.known_hits.entry(v.signature.clone()).or_insert(0) += 1;
                } else {
                    let path = write_replay(&ctx.id, &v);
                    lr.violations.push((v, path));
                }
            }
        }
    }
}

pub struct Prop {
    pub id: &'static str,
    pub level: &'static str,
    pub rule: &'static str,
    pub assumptions: &'static [&'static str],
    pub lanes: fn(Tier) -> u32,
    pub run_lane: fn(&Ctx, &mut LaneResult),
    /// replay one saved case: (check name, case json) -> violation if it still fails
    pub replay: fn(&Ctx, &str, &Value) -> Result<(), Fail>,
    /// extra coverage keys for the evidence file
    pub extra: Option<fn(&LaneResult) -> Value>,
    pub exhaustive: bool,
}

pub fn regress_files(id: &str) -> Vec<PathBuf> {
    let dir = Path::new(VERIF).join("replays").join(id).join("regress");
    let mut v: Vec<PathBuf> = match std::fs::read_dir(&dir) {
        Ok(rd) => rd.flatten().map(|e| e.path()).filter(|p| p.extension().map(|e| e == "json").unwrap_or(false)).collect(),
        Err(_) => vec![],
    };
    v.sort();
    v
}

/// Replay the regression corpus and known findings (lane 0 only).
pub fn run_regress(ctx: &Ctx, prop: &Prop, lr: &mut LaneResult) {
    if ctx.lane != 0 {
        return;
    }
    let known_replays: Vec<(String, String, String)> = ctx
        .known
        .iter()
        .filter(|k| k.property == ctx.id)
        .filter_map(|k| k.replay.as_ref().map(|r| (k.signature.clone(), k.status.clone(), r.clone())))
        .collect();
    let mut files: Vec<(PathBuf, Option<(String, String)>)> = regress_files(&ctx.id).into_iter().map(|p| (p, None)).collect();
    for (sig, status, r) in known_replays {
        let p = Path::new(VERIF).join(&r);
        if let Some(e) = files.iter_mut().find(|(q, _)| *q == p) {
            e.1 = Some((sig, status));
        } else {
            files.push((p, Some((sig, status))));
        }
    }
    for (f, known) in files {
        let data = match std::fs::read(&f) {
            Ok(d) => d,
            Err(e) => {
                lr.harness_errors.push(format!("regress file {:?}: {}", f, e));
                continue;
            }
        };
        let v: Value = match serde_json::from_slice(&data) {
            Ok(v) => v,
            Err(e) => {
                lr.harness_errors.push(format!("regress file {:?}: {}", f, e));
                continue;
            }
        };
        let check = v["check"].as_str().unwrap_or("").to_string();
        lr.stats.count("regress_cases", 1);
        match (prop.replay)(ctx, &check, &v["case"]) {
            Ok(()) => {
                if let Some((sig, status)) = &known {
                    if status == "open" {
                        lr.notes.push(format!("known finding {} no longer reproduces", sig));
                    }
                }
            }
            Err(Fail::Harness(m)) => lr.harness_errors.push(format!("regress {:?}: {}", f, m)),
            Err(Fail::Violation(viol)) => {
                let open = ctx.is_known_open(&viol.signature);
                if open {
                    *lr.known_hits.entry(viol.signature.clone()).or_insert(0) += 1;
                } else {
                    lr.violations.push((viol, f.to_string_lossy().to_string()));
                }
            }
        }
    }
}

pub fn lane_main(prop: &Prop, ctx: &Ctx, out: &Path) {
    let mut lr = LaneResult::default();
    run_regress(ctx, prop, &mut lr);
    if lr.violations.is_empty() {
        (prop.run_lane)(ctx, &mut lr);
    }
    std::fs::write(out, serde_json::to_vec(&lr).unwrap()).expect("write lane result");
}

/// Remove scratch directories of processes that no longer exist.
pub fn sweep_stale_scratch() {
    if let Ok(rd) = std::fs::read_dir(crate::sandbox::scratch_base()) {
        for e in rd.flatten() {
            let n = e.file_name().to_string_lossy().to_string();
            if let Some(rest) = n.strip_prefix("pv.") {
                let pid: i32 = rest.split('.').next().and_then(|x| x.parse().ok()).unwrap_or(0);
                let pid = if rest.starts_with("lanes.") { rest[6..].parse().unwrap_or(0) } else { pid };
                if pid > 0 && unsafe { libc::kill(pid, 0) } != 0 {
                    rm_rf(&e.path());
                }
            }
        }
    }
}

pub fn check_main(prop: &Prop, tier: Tier, seed: u64) -> i32 {
    let t0 = now_s();
    sweep_stale_scratch();
    crate::props::c15::restore_if_orphaned();
    crate::props::c14::restore_if_orphaned();
    let lanes = (prop.lanes)(tier).max(1);
    let exe = std::env::current_exe().expect("current_exe");
    let tmp = crate::sandbox::scratch_base().join(format!("pv.lanes.{}", std::process::id()));
    mkdir_p(&tmp);
    let mut children = Vec::new();
    for j in 0..lanes {
        let out = tmp.join(format!("lane{}.json", j));
        let ch = std::process::Command::new(&exe)
            .args(["lane", prop.id, tier.name(), &j.to_string(), &lanes.to_string(), &seed.to_string()])
            .arg(&out)
            .env("RUST_BACKTRACE", "0")
            .spawn()
            .expect("spawn lane");
        children.push((j, ch, out));
    }
    let mut total = LaneResult::default();
    let mut harness_fail = false;
    for (j, mut ch, out) in children {
        let st = ch.wait().expect("wait lane");
        if !st.success() {
            total.harness_errors.push(format!("lane {} exited with {:?}", j, st));
            harness_fail = true;
            continue;
        }
        match std::fs::read(&out).ok().and_then(|d| serde_json::from_slice::<LaneResult>(&d).ok()) {
            Some(lr) => {
                total.stats.merge(lr.stats);
                total.violations.extend(lr.violations);
                for (k, v) in lr.known_hits {
                    *total.known_hits.entry(k).or_insert(0) += v;
                }
                total.harness_errors.extend(lr.harness_errors);
                total.notes.extend(lr.notes);
            }
            None => {
                total.harness_errors.push(format!("lane {} produced no result", j));
                harness_fail = true;
            }
        }
    }
    rm_rf(&tmp);
    sweep_stale_scratch();
    let wall = now_s() - t0;

    let known = load_known();
    for (sig, n) in &total.known_hits {
        let desc = known.iter().find(|k| k.property == prop.id && &k.signature == sig).map(|k| k.description.clone()).unwrap_or_default();
        println!("KNOWN-FINDING: property={} {} [{}] (hit {} times)", prop.id, desc, sig, n);
    }
    for n in &total.notes {
        eprintln!("note: {}", n);
    }
    for (v, path) in &total.violations {
        println!("VIOLATION property={} replay={}", prop.id, path);
        println!("  signature: {}", v.signature);
        for l in v.message.lines().take(40) {
            let l: String = if l.chars().count() > 700 { l.chars().take(700).collect::<String>() + " …" } else { l.to_string() };
            println!("  {}", l);
        }
    }
    for e in total.harness_errors.iter().take(20) {
        eprintln!("INCONCLUSIVE: {}", e);
    }

    // evidence
    let mut samples = total.stats.samples.clone();
    for (k, v) in &total.stats.class_samples {
        samples.push(json!({"class": k, "case": v}));
    }
    let mut coverage = json!({
        "evaluations": total.stats.evaluations,
        "distinct_nontrivial": total.stats.nontrivial.len(),
        "rule": prop.rule,
        "samples": samples,
        "classes": total.stats.classes,
        "counters": total.stats.counters,
        "inconclusive": total.stats.inconclusive,
        "lanes": lanes,
        "known_finding_hits": total.known_hits,
        "exhaustive": prop.exhaustive,
    });
    if let Some(extra) = prop.extra {
        if let Value::Object(m) = extra(&total) {
            for (k, v) in m {
                coverage[k] = v;
            }
        }
    }
    let ev = json!({
        "property_id": prop.id,
        "tier": tier.name(),
        "seed": seed,
        "level": prop.level,
        "coverage": coverage,
        "assumptions": prop.assumptions,
        "wall_s": (wall * 100.0).round() / 100.0,
        "violations": total.violations.len(),
    });
    let evdir = Path::new(VERIF).join("evidence");
    mkdir_p(&evdir);
    std::fs::write(evdir.join(format!("{}.json", prop.id)), serde_json::to_string_pretty(&ev).unwrap()).expect("write evidence");
    eprintln!(
        "{} {}: evaluations={} distinct_nontrivial={} violations={} known={} inconclusive={} wall={:.1}s",
        prop.id,
        tier.name(),
        total.stats.evaluations,
        total.stats.nontrivial.len(),
        total.violations.len(),
        total.known_hits.len(),
        total.stats.inconclusive,
        wall
    );
    if !total.violations.is_empty() {
        1
    } else if harness_fail || !total.harness_errors.is_empty() {
        2
    } else {
        0
    }
}

pub fn replay_main(prop: &Prop, file: &Path) -> i32 {
    let data = std::fs::read(file).expect("read replay file");
    let v: Value = serde_json::from_slice(&data).expect("parse replay file");
    let ctx = Ctx { id: prop.id.to_string(), tier: Tier::Quick, seed: 0, lane: 0, lanes: 1, strict: true, known: vec![] };
    let check = v["check"].as_str().unwrap_or("").to_string();
    match (prop.replay)(&ctx, &check, &v["case"]) {
        Ok(()) => {
            println!("replay passed: {}", file.display());
            0
        }
        Err(Fail::Harness(m)) => {
            eprintln!("INCONCLUSIVE: {}", m);
            2
        }
        Err(Fail::Violation(viol)) => {
            println!("VIOLATION property={} replay={}", prop.id, file.display());
            println!("  signature: {}", viol.signature);
            for l in viol.message.lines().take(60) {
                let l: String = if l.chars().count() > 700 { l.chars().take(700).collect::<String>() + " …" } else { l.to_string() };
                println!("  {}", l);
            }
            1
        }
    }
}
