//! Case isolation: every case runs in a forked child; library code runs on a
//! dedicated worker thread of that child carrying the seccomp filter.

use crate::gate::*;
use crate::util::*;
use pathrs::error::{Error, ErrorKind};
use serde::{de::DeserializeOwned, Deserialize, Serialize};
use std::os::unix::io::AsRawFd;

#[derive(Debug)]
pub enum ChildOut<T> {
    Ok(T),
    Crashed { sig: i32 },
    Exit { code: i32, stderr_hint: String },
    Timeout,
}

/// Run `f` in a forked child and return what it produced. The parent must be
/// single-threaded.
pub fn run_in_child<T, F>(timeout_s: f64, f: F) -> ChildOut<T>
where
    T: Serialize + DeserializeOwned,
    F: FnOnce() -> T,
{
    let mut fds = [0i32; 2];
    assert!(unsafe { libc::pipe2(fds.as_mut_ptr(), libc::O_CLOEXEC) } == 0);
    let pid = unsafe { libc::fork() };
    assert!(pid >= 0, "fork failed: {}", errno());
    if pid == 0 {
        unsafe {
            libc::close(fds[0]);
            libc::prctl(libc::PR_SET_PDEATHSIG, libc::SIGKILL);
        }
        quiet_panics();
        let res = std::panic::catch_unwind(std::panic::AssertUnwindSafe(f));
        match res {
            Ok(v) => {
                let s = serde_json::to_vec(&v).expect("serialise child result");
                let mut off = 0;
                while off < s.len() {
                    let n = unsafe { libc::write(fds[1], s[off..].as_ptr() as *const libc::c_void, s.len() - off) };
                    if n <= 0 {
                        unsafe { libc::_exit(4) };
                    }
                    off += n as usize;
                }
                unsafe { libc::_exit(0) };
            }
            Err(e) => {
                let msg = panic_msg(&e);
                let m = format!("HARNESS-PANIC: {}\n", msg);
                unsafe {
                    libc::write(2, m.as_ptr() as *const libc::c_void, m.len());
                    libc::write(fds[1], m.as_ptr() as *const libc::c_void, m.len());
                    libc::_exit(3)
                };
            }
        }
    }
    close(fds[1]);
    let deadline = now_s() + timeout_s;
    let mut data = Vec::new();
    let mut buf = vec![0u8; 65536];
    let mut timed_out = false;
    loop {
        let left = deadline - now_s();
        if left <= 0.0 {
            timed_out = true;
            break;
        }
        let mut pfd = libc::pollfd { fd: fds[0], events: libc::POLLIN, revents: 0 };
        let r = unsafe { libc::poll(&mut pfd, 1, (left * 1000.0).min(1000.0) as i32 + 1) };
        if r < 0 {
            if errno() == libc::EINTR {
                continue;
            }
            break;
        }
        if r == 0 {
            continue;
        }
        let n = unsafe { libc::read(fds[0], buf.as_mut_ptr() as *mut libc::c_void, buf.len()) };
        if n <= 0 {
            break;
        }
        data.extend_from_slice(&buf[..n as usize]);
    }
    close(fds[0]);
    if timed_out {
        let mut msg = format!("HANG-DIAGNOSTICS for child {}\n", pid);
        if let Ok(rd) = std::fs::read_dir(format!("/proc/{}/task", pid)) {
            for e in rd.flatten() {
                let p = e.path();
                let comm = std::fs::read_to_string(p.join("comm")).unwrap_or_default();
                let sc = std::fs::read_to_string(p.join("syscall")).unwrap_or_default();
                let wchan = std::fs::read_to_string(p.join("wchan")).unwrap_or_default();
                let stat = std::fs::read_to_string(p.join("stat")).unwrap_or_default();
                let state = stat.split(") ").nth(1).map(|x| x.chars().next().unwrap_or('?')).unwrap_or('?');
                msg.push_str(&format!("  tid {:?} comm={} state={} wchan={} syscall={}\n", e.file_name(), comm.trim(), state, wchan.trim(), sc.trim()));
                // for path-taking syscalls show the string argument
                let parts: Vec<&str> = sc.split_whitespace().collect();
                if parts.len() > 3 {
                    for a in &parts[1..3] {
                        if let Ok(addr) = u64::from_str_radix(a.trim_start_matches("0x"), 16) {
                            if addr > 0x10000 {
                                use std::io::{Read, Seek, SeekFrom};
                                if let Ok(mut f) = std::fs::File::open(format!("/proc/{}/mem", pid)) {
                                    let mut buf = [0u8; 128];
                                    if f.seek(SeekFrom::Start(addr)).is_ok() {
                                        if let Ok(n) = f.read(&mut buf) {
                                            let end = buf[..n].iter().position(|&c| c == 0).unwrap_or(n);
                                            msg.push_str(&format!("      arg {} -> {:?}\n", a, String::from_utf8_lossy(&buf[..end])));
                                        }
                                    }
                                }
                            }
                        }
                    }
                }
            }
        }
        eprint!("{}", msg);
        unsafe { libc::kill(pid, libc::SIGKILL) };
    }
    let mut status = 0;
    loop {
        let r = unsafe { libc::waitpid(pid, &mut status, 0) };
        if r < 0 && errno() == libc::EINTR {
            continue;
        }
        break;
    }
    if timed_out || libc::WIFSIGNALED(status) || libc::WEXITSTATUS(status) != 0 {
        // the child could not clean up its own scratch directories
        let base = crate::sandbox::scratch_base();
        if let Ok(rd) = std::fs::read_dir(&base) {
            let prefix = format!("pv.{}.", pid);
            for e in rd.flatten() {
                if e.file_name().to_string_lossy().starts_with(&prefix) {
                    rm_rf(&e.path());
                }
            }
        }
    }
    if timed_out {
        return ChildOut::Timeout;
    }
    if libc::WIFSIGNALED(status) {
        return ChildOut::Crashed { sig: libc::WTERMSIG(status) };
    }
    let code = libc::WEXITSTATUS(status);
    if code != 0 {
        return ChildOut::Exit { code, stderr_hint: String::from_utf8_lossy(&data).chars().take(2000).collect() };
    }
    match serde_json::from_slice(&data) {
        Ok(v) => ChildOut::Ok(v),
        Err(e) => ChildOut::Exit { code: 5, stderr_hint: format!("bad child output: {}", e) },
    }
}

extern "C" fn on_alarm(_: libc::c_int) {
    // best effort: say where every thread is stuck, then give up
    let mut msg = String::from("HANG-DIAGNOSTICS\n");
    if let Ok(rd) = std::fs::read_dir("/proc/self/task") {
        for e in rd.flatten() {
            let p = e.path();
            let comm = std::fs::read_to_string(p.join("comm")).unwrap_or_default();
            let sc = std::fs::read_to_string(p.join("syscall")).unwrap_or_default();
            let wchan = std::fs::read_to_string(p.join("wchan")).unwrap_or_default();
            msg.push_str(&format!("  tid {:?} comm={} wchan={} syscall={}\n", e.file_name(), comm.trim(), wchan.trim(), sc.trim()));
        }
    }
    unsafe {
        libc::write(2, msg.as_ptr() as *const libc::c_void, msg.len());
        libc::_exit(7);
    }
}

fn install_hang_diagnostics(after_s: u32) {
    unsafe {
        libc::signal(libc::SIGALRM, on_alarm as usize);
        libc::alarm(after_s);
    }
}

pub fn quiet_panics() {
    std::panic::set_hook(Box::new(|_| {}));
}

pub fn panic_msg(e: &Box<dyn std::any::Any + Send>) -> String {
    if let Some(s) = e.downcast_ref::<&str>() {
        s.to_string()
    } else if let Some(s) = e.downcast_ref::<String>() {
        s.clone()
    } else {
        "<non-string panic>".to_string()
    }
}

/// State that lives on the worker thread between jobs.
#[derive(Default)]
pub struct WState {
    pub root: Option<pathrs::Root>,
    pub roots: Vec<pathrs::Root>,
    pub fds: Vec<Option<std::os::unix::io::OwnedFd>>,
    pub procfs: Option<pathrs::procfs::ProcfsHandle>,
}

type Job = Box<dyn FnOnce(&WorkerGate, &mut WState) + Send + 'static>;

/// A worker thread carrying the seccomp filter, executing jobs on request.
pub struct Session {
    tx: std::sync::mpsc::Sender<Job>,
    gate: Option<Gate>,
}

impl Session {
    /// Run `f` on the worker thread and wait for its result.
    pub fn run<T: Send, F: FnOnce(&WorkerGate, &mut WState) -> T + Send>(&self, f: F) -> T {
        let (rtx, rrx) = std::sync::mpsc::channel::<T>();
        let job: Box<dyn FnOnce(&WorkerGate, &mut WState) + Send + '_> = Box::new(move |wg, st| {
            let _ = rtx.send(f(wg, st));
        });
        // SAFETY: we block until the job has run (or the worker died), so the
        // borrows captured by `f` outlive its execution.
        let job: Job = unsafe { std::mem::transmute(job) };
        self.tx.send(job).expect("worker thread is gone");
        match rrx.recv() {
            Ok(v) => v,
            Err(_) => panic!("worker thread died while running a job"),
        }
    }
    pub fn take_calls(&self) -> Vec<CallRec> {
        match &self.gate {
            Some(g) => g.take_calls(),
            None => vec![],
        }
    }
}

/// Start a worker thread with the kcfg filter (and the notifying gate when a
/// policy is given), run `body` with a session handle, tear everything down.
pub fn with_session<R>(kcfg: Kcfg, policy: Option<Policy>, body: impl FnOnce(&Session) -> R) -> R {
    let (tx, rx) = std::sync::mpsc::channel::<Job>();
    let gate = policy.map(Gate::start);
    let gate_ref = gate.as_ref().map(|g| g.attach_handle());
    let worker = std::thread::Builder::new()
        .name("pv-worker".into())
        // recursive library code (remove_all) on deep trees must not be limited by our thread
        .stack_size(512 << 20)
        .spawn(move || {
            let wg = match gate_ref {
                Some(h) => h.attach_worker(kcfg),
                None => attach_plain(kcfg),
            };
            let mut st = WState::default();
            while let Ok(job) = rx.recv() {
                job(&wg, &mut st);
            }
            // drop library objects before the thread ends
            drop(st);
        })
        .expect("spawn worker");
    let session = Session { tx, gate };
    let r = std::panic::catch_unwind(std::panic::AssertUnwindSafe(|| body(&session)));
    let Session { tx, gate } = session;
    drop(tx);
    let wres = worker.join();
    if let Some(g) = gate {
        if let Err(e) = g.finish() {
            panic!("gate failure: {}", e);
        }
    }
    if let Err(e) = wres {
        panic!("worker thread panicked: {}", panic_msg(&e));
    }
    match r {
        Ok(r) => r,
        Err(e) => std::panic::resume_unwind(e),
    }
}

// ---------------------------------------------------------------------------
// Outcomes of library calls

#[derive(Clone, Debug, PartialEq, Eq, Serialize, Deserialize)]
pub struct Obj {
    pub dev: u64,
    pub ino: u64,
    pub ftype: u32,
    pub getfl: i32,
    pub cloexec: bool,
    pub fd: i32,
}

impl Obj {
    pub fn of_fd(fd: i32) -> Obj {
        let _h = HarnessSection::enter();
        let st = fstat(fd).expect("fstat returned fd");
        Obj { dev: st.id.dev, ino: st.id.ino, ftype: st.ftype(), getfl: fcntl_getfl(fd), cloexec: fcntl_getfd(fd) & libc::FD_CLOEXEC != 0, fd }
    }
    pub fn id(&self) -> Ident {
        Ident { dev: self.dev, ino: self.ino }
    }
}

#[derive(Clone, Debug, PartialEq, Eq, Serialize, Deserialize)]
pub enum Out {
    Fd(Obj),
    Unit,
    Bytes(B),
    Err { kind: String, errno: Option<i32> },
    Panicked(String),
}

impl Out {
    pub fn is_ok(&self) -> bool {
        matches!(self, Out::Fd(_) | Out::Unit | Out::Bytes(_))
    }
    pub fn errno(&self) -> Option<i32> {
        match self {
            Out::Err { errno, .. } => *errno,
            _ => None,
        }
    }
    pub fn brief(&self) -> String {
        match self {
            Out::Fd(o) => format!("Ok(fd {} ino={} getfl=0x{:x})", ftype_name(o.ftype), o.ino, o.getfl),
            Out::Unit => "Ok(())".into(),
            Out::Bytes(b) => format!("Ok(\"{}\")", b),
            Out::Err { kind, errno } => format!("Err({}{})", kind, errno.map(|e| format!(":{}", errno_name(e))).unwrap_or_default()),
            Out::Panicked(m) => format!("PANIC({})", m.chars().take(120).collect::<String>()),
        }
    }
    /// Class used to compare with the kernel: Ok / errno
    pub fn class(&self) -> String {
        match self {
            Out::Err { kind, errno } => match errno {
                Some(e) => errno_name(*e),
                None => kind.clone(),
            },
            Out::Panicked(_) => "PANIC".into(),
            _ => "Ok".into(),
        }
    }
}

pub fn err_out(e: &Error) -> Out {
    let (kind, errno) = match e.kind() {
        ErrorKind::OsError(x) => ("os", x),
        ErrorKind::SafetyViolation => ("safety", Some(libc::EXDEV)),
        ErrorKind::InvalidArgument => ("inval", Some(libc::EINVAL)),
        ErrorKind::NotImplemented => ("notimpl", Some(libc::ENOSYS)),
        ErrorKind::NotSupported => ("notsupp", None),
        ErrorKind::InternalError => ("internal", None),
        _ => ("unknown", None),
    };
    Out::Err { kind: kind.to_string(), errno }
}

/// Run one library call with panic capture.
pub fn guarded<T, F: FnOnce() -> Result<T, Error>>(f: F) -> Result<T, Out> {
    match std::panic::catch_unwind(std::panic::AssertUnwindSafe(f)) {
        Ok(Ok(v)) => Ok(v),
        Ok(Err(e)) => Err(err_out(&e)),
        Err(p) => Err(Out::Panicked(panic_msg(&p))),
    }
}

pub fn out_fd<T: AsRawFd>(r: Result<T, Out>) -> (Out, Option<T>) {
    match r {
        Ok(v) => (Out::Fd(Obj::of_fd(v.as_raw_fd())), Some(v)),
        Err(o) => (o, None),
    }
}

pub fn out_unit(r: Result<(), Out>) -> Out {
    match r {
        Ok(()) => Out::Unit,
        Err(o) => o,
    }
}
