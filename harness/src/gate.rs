//! The syscall gate: a seccomp filter on the thread that runs library code.
//!
//! * `enosys` syscalls answer ENOSYS straight from BPF (kernel-feature
//!   configurations, "kcfg").
//! * all other table syscalls raise a user notification that a supervisor
//!   thread in the same process answers: record, inject an errno, run attacker
//!   code first, or hold the thread (scheduler).

use crate::util::*;
use serde::{Deserialize, Serialize};
use std::ffi::CStr;
use std::sync::atomic::{AtomicBool, AtomicI32, Ordering};
use std::sync::{Arc, Mutex};

pub const SYS_OPENAT2: i64 = 437;
pub const SYS_FSOPEN: i64 = 430;
pub const SYS_FSCONFIG: i64 = 431;
pub const SYS_FSMOUNT: i64 = 432;
pub const SYS_OPEN_TREE: i64 = 428;
pub const SYS_MOVE_MOUNT: i64 = 429;
pub const SYS_FACCESSAT2: i64 = 439;

#[derive(Clone, Copy, Debug)]
pub struct SysDesc {
    pub nr: i64,
    pub name: &'static str,
    /// indices of dirfd arguments
    pub dirfds: &'static [usize],
    /// indices of path-pointer arguments (paired with dirfds by position where it applies)
    pub paths: &'static [usize],
    /// index of flags argument (usize::MAX: none)
    pub flags: usize,
    /// creates a new descriptor on success
    pub fd_creating: bool,
    /// acts only on the caller's descriptor table (no placement point)
    pub neutral: bool,
    /// legacy spelling without dirfd (absolute / cwd-relative path)
    pub legacy: bool,
    /// may modify the file system
    pub mutating: bool,
}

const NONE: usize = usize::MAX;

macro_rules! sd {
    ($nr:expr, $name:expr, $d:expr, $p:expr, $f:expr, $c:expr, $n:expr, $l:expr, $m:expr) => {
        SysDesc { nr: $nr, name: $name, dirfds: $d, paths: $p, flags: $f, fd_creating: $c, neutral: $n, legacy: $l, mutating: $m }
    };
}

pub static TABLE: &[SysDesc] = &[
    sd!(257, "openat", &[0], &[1], 2, true, false, false, false),
    sd!(437, "openat2", &[0], &[1], NONE, true, false, false, false),
    sd!(2, "open", &[], &[0], 1, true, false, true, false),
    sd!(85, "creat", &[], &[0], NONE, true, false, true, true),
    sd!(267, "readlinkat", &[0], &[1], NONE, false, false, false, false),
    sd!(89, "readlink", &[], &[0], NONE, false, false, true, false),
    sd!(262, "newfstatat", &[0], &[1], 3, false, false, false, false),
    sd!(4, "stat", &[], &[0], NONE, false, false, true, false),
    sd!(6, "lstat", &[], &[0], NONE, false, false, true, false),
    sd!(5, "fstat", &[0], &[], NONE, false, true, false, false),
    sd!(332, "statx", &[0], &[1], 2, false, false, false, false),
    sd!(138, "fstatfs", &[0], &[], NONE, false, true, false, false),
    sd!(137, "statfs", &[], &[0], NONE, false, false, true, false),
    sd!(269, "faccessat", &[0], &[1], NONE, false, false, false, false),
    sd!(439, "faccessat2", &[0], &[1], 3, false, false, false, false),
    sd!(21, "access", &[], &[0], NONE, false, false, true, false),
    sd!(258, "mkdirat", &[0], &[1], NONE, false, false, false, true),
    sd!(83, "mkdir", &[], &[0], NONE, false, false, true, true),
    sd!(259, "mknodat", &[0], &[1], NONE, false, false, false, true),
    sd!(133, "mknod", &[], &[0], NONE, false, false, true, true),
    sd!(263, "unlinkat", &[0], &[1], 2, false, false, false, true),
    sd!(87, "unlink", &[], &[0], NONE, false, false, true, true),
    sd!(84, "rmdir", &[], &[0], NONE, false, false, true, true),
    sd!(265, "linkat", &[0, 2], &[1, 3], 4, false, false, false, true),
    sd!(86, "link", &[], &[0, 1], NONE, false, false, true, true),
    sd!(266, "symlinkat", &[1], &[2], NONE, false, false, false, true),
    sd!(88, "symlink", &[], &[1], NONE, false, false, true, true),
    sd!(264, "renameat", &[0, 2], &[1, 3], NONE, false, false, false, true),
    sd!(316, "renameat2", &[0, 2], &[1, 3], 4, false, false, false, true),
    sd!(82, "rename", &[], &[0, 1], NONE, false, false, true, true),
    sd!(217, "getdents64", &[0], &[], NONE, false, false, false, false),
    sd!(78, "getdents", &[0], &[], NONE, false, false, false, false),
    sd!(0, "read", &[0], &[], NONE, false, false, false, false),
    sd!(17, "pread64", &[0], &[], NONE, false, false, false, false),
    sd!(72, "fcntl", &[0], &[], NONE, false, true, false, false),
    sd!(32, "dup", &[0], &[], NONE, true, true, false, false),
    sd!(33, "dup2", &[0], &[], NONE, true, true, false, false),
    sd!(292, "dup3", &[0], &[], 2, true, true, false, false),
    sd!(3, "close", &[0], &[], NONE, false, true, false, false),
    sd!(430, "fsopen", &[], &[0], 1, true, false, false, false),
    sd!(431, "fsconfig", &[0], &[], NONE, false, false, false, false),
    sd!(432, "fsmount", &[0], &[], 1, true, false, false, false),
    sd!(428, "open_tree", &[0], &[1], 2, true, false, false, false),
    sd!(429, "move_mount", &[0, 2], &[1, 3], 4, false, false, false, true),
    sd!(165, "mount", &[], &[0, 1], NONE, false, false, true, true),
    sd!(166, "umount2", &[], &[0], NONE, false, false, true, true),
    sd!(303, "name_to_handle_at", &[0], &[1], 4, false, false, false, false),
    sd!(304, "open_by_handle_at", &[0], &[], 2, true, false, false, false),
    sd!(80, "chdir", &[], &[0], NONE, false, false, true, false),
    sd!(81, "fchdir", &[0], &[], NONE, false, false, false, false),
    sd!(161, "chroot", &[], &[0], NONE, false, false, true, false),
    sd!(76, "truncate", &[], &[0], NONE, false, false, true, true),
    sd!(90, "chmod", &[], &[0], NONE, false, false, true, true),
    sd!(268, "fchmodat", &[0], &[1], NONE, false, false, false, true),
    sd!(92, "chown", &[], &[0], NONE, false, false, true, true),
    sd!(260, "fchownat", &[0], &[1], 4, false, false, false, true),
    sd!(280, "utimensat", &[0], &[1], 3, false, false, false, true),
    sd!(59, "execve", &[], &[0], NONE, false, false, true, false),
    sd!(322, "execveat", &[0], &[1], 4, false, false, false, false),
];

pub fn desc(nr: i64) -> Option<&'static SysDesc> {
    TABLE.iter().find(|d| d.nr == nr)
}

pub fn nr_of(name: &str) -> i64 {
    TABLE.iter().find(|d| d.name == name).map(|d| d.nr).unwrap_or(-1)
}

// ---------------------------------------------------------------------------
// Kernel-feature configurations

#[derive(Clone, Copy, Debug, PartialEq, Eq, Hash, Serialize, Deserialize, PartialOrd, Ord)]
pub enum Kcfg {
    Full,
    NoOpenat2,
    NoFsopen,
    NoMountApi,
    NoOpenat2NoFsopen,
    NoOpenat2NoMountApi,
}

impl Kcfg {
    pub fn enosys(&self) -> Vec<i64> {
        match self {
            Kcfg::Full => vec![],
            Kcfg::NoOpenat2 => vec![SYS_OPENAT2],
            Kcfg::NoFsopen => vec![SYS_FSOPEN],
            Kcfg::NoMountApi => vec![SYS_FSOPEN, SYS_OPEN_TREE],
            Kcfg::NoOpenat2NoFsopen => vec![SYS_OPENAT2, SYS_FSOPEN],
            Kcfg::NoOpenat2NoMountApi => vec![SYS_OPENAT2, SYS_FSOPEN, SYS_OPEN_TREE],
        }
    }
    pub fn has_openat2(&self) -> bool {
        !self.enosys().contains(&SYS_OPENAT2)
    }
    pub fn name(&self) -> &'static str {
        match self {
            Kcfg::Full => "full",
            Kcfg::NoOpenat2 => "no-openat2",
            Kcfg::NoFsopen => "no-fsopen",
            Kcfg::NoMountApi => "no-mountapi",
            Kcfg::NoOpenat2NoFsopen => "no-openat2,no-fsopen",
            Kcfg::NoOpenat2NoMountApi => "no-openat2,no-mountapi",
        }
    }
}

// ---------------------------------------------------------------------------
// BPF program

#[repr(C)]
#[derive(Clone, Copy)]
struct SockFilter {
    code: u16,
    jt: u8,
    jf: u8,
    k: u32,
}
#[repr(C)]
struct SockFprog {
    len: u16,
    filter: *const SockFilter,
}

const RET_ALLOW: u32 = 0x7fff_0000;
const RET_ERRNO: u32 = 0x0005_0000;
const RET_USER_NOTIF: u32 = 0x7fc0_0000;
const AUDIT_ARCH_X86_64: u32 = 0xC000_003E;

fn build_prog(enosys: &[i64], notify: bool) -> Vec<SockFilter> {
    let ld = |k| SockFilter { code: 0x20, jt: 0, jf: 0, k };
    let jeq = |k, jt, jf| SockFilter { code: 0x15, jt, jf, k };
    let ret = |k| SockFilter { code: 0x06, jt: 0, jf: 0, k };
    let mut p = vec![ld(4), jeq(AUDIT_ARCH_X86_64, 1, 0), ret(RET_ALLOW), ld(0)];
    for &nr in enosys {
        p.push(jeq(nr as u32, 0, 1));
        p.push(ret(RET_ERRNO | libc::ENOSYS as u32));
    }
    if notify {
        for d in TABLE {
            if enosys.contains(&d.nr) {
                continue;
            }
            p.push(jeq(d.nr as u32, 0, 1));
            p.push(ret(RET_USER_NOTIF));
        }
    }
    p.push(ret(RET_ALLOW));
    p
}

/// Install the filter on the calling thread. Returns the listener fd when
/// `notify` is set.
pub fn install_filter(enosys: &[i64], notify: bool) -> Result<Option<i32>, String> {
    if enosys.is_empty() && !notify {
        return Ok(None);
    }
    let prog = build_prog(enosys, notify);
    let fprog = SockFprog { len: prog.len() as u16, filter: prog.as_ptr() };
    unsafe {
        if libc::prctl(libc::PR_SET_NO_NEW_PRIVS, 1, 0, 0, 0) != 0 {
            return Err(format!("prctl(NO_NEW_PRIVS): {}", errno()));
        }
        let flags: libc::c_ulong = if notify { 8 } else { 0 };
        let r = libc::syscall(libc::SYS_seccomp, 1 as libc::c_ulong, flags, &fprog as *const SockFprog);
        if r < 0 {
            return Err(format!("seccomp: errno {}", errno()));
        }
        Ok(if notify { Some(r as i32) } else { None })
    }
}

// ---------------------------------------------------------------------------
// Supervisor

#[repr(C)]
#[derive(Clone, Copy, Default)]
struct SeccompData {
    nr: i32,
    arch: u32,
    ip: u64,
    args: [u64; 6],
}
#[repr(C)]
#[derive(Clone, Copy, Default)]
struct SeccompNotif {
    id: u64,
    pid: u32,
    flags: u32,
    data: SeccompData,
}
#[repr(C)]
#[derive(Clone, Copy, Default)]
struct SeccompNotifResp {
    id: u64,
    val: i64,
    error: i32,
    flags: u32,
}
const NOTIF_RECV: libc::c_ulong = 0xC050_2100;
const NOTIF_SEND: libc::c_ulong = 0xC018_2101;

/// Magic first argument of `fcntl` used by the worker as a synchronous
/// message to the supervisor (the syscall is answered, never executed).
pub const MARK_FD: i32 = -0x5056;
/// Set by the worker around syscalls the harness itself makes inside a
/// bracket (fstat of a returned descriptor …): the supervisor lets them pass
/// unrecorded, un-counted and un-faulted. Notifications are synchronous, so a
/// plain atomic is race-free.
pub static HARNESS_SECTION: AtomicBool = AtomicBool::new(false);

pub struct HarnessSection;
impl HarnessSection {
    pub fn enter() -> HarnessSection {
        HARNESS_SECTION.store(true, Ordering::SeqCst);
        HarnessSection
    }
}
impl Drop for HarnessSection {
    fn drop(&mut self) {
        HARNESS_SECTION.store(false, Ordering::SeqCst);
    }
}

pub const MARK_ENTER: i32 = 1;
pub const MARK_EXIT: i32 = 2;

#[derive(Clone, Debug, PartialEq, Eq, Serialize, Deserialize)]
pub enum FdKind {
    Cwd,
    /// a directory or other inode (dev, ino), not on procfs
    Inode { dev: u64, ino: u64, ftype: u32 },
    Procfs { ino: u64, ftype: u32 },
    Bad,
    NotAnFd,
}

#[derive(Clone, Debug, Serialize, Deserialize)]
pub struct Sys {
    pub idx: usize,
    pub nr: i64,
    pub name: String,
    pub args: [u64; 6],
    pub dirfds: Vec<(i32, FdKind)>,
    pub paths: Vec<B>,
    pub flags: u64,
    /// openat2: (how.flags, how.resolve)
    pub how: Option<(u64, u64)>,
    /// errno injected by the gate for this call, if any
    pub injected: Option<i32>,
}

impl Sys {
    pub fn short(&self) -> String {
        let mut s = format!("{}(", self.name);
        for (i, (fd, k)) in self.dirfds.iter().enumerate() {
            if i > 0 {
                s.push_str(", ");
            }
            let k = match k {
                FdKind::Cwd => "CWD".to_string(),
                FdKind::Inode { ftype, .. } => format!("{}:{}", fd, ftype_name(*ftype)),
                FdKind::Procfs { ftype, .. } => format!("{}:proc-{}", fd, ftype_name(*ftype)),
                FdKind::Bad => format!("{}:bad", fd),
                FdKind::NotAnFd => format!("{}", fd),
            };
            s.push_str(&k);
        }
        for p in &self.paths {
            s.push_str(&format!(", \"{}\"", p));
        }
        if let Some((f, r)) = self.how {
            s.push_str(&format!(", how{{flags=0x{:x},resolve=0x{:x}}}", f, r));
        } else if self.flags != 0 {
            s.push_str(&format!(", 0x{:x}", self.flags));
        }
        s.push(')');
        if let Some(e) = self.injected {
            s.push_str(&format!(" =! {}", errno_name(e)));
        }
        s
    }
}

#[derive(Clone, Debug, PartialEq, Eq, Serialize, Deserialize)]
pub struct FdInfo {
    pub fd: i32,
    pub dev: u64,
    pub ino: u64,
    pub ftype: u32,
    pub cloexec: bool,
    pub getfl: i32,
    #[serde(default)]
    pub procfs: bool,
}

pub fn fd_table(limit: i32) -> Vec<FdInfo> {
    let mut v = Vec::new();
    for fd in 0..limit {
        let fdfl = fcntl_getfd(fd);
        if fdfl < 0 {
            continue;
        }
        if let Ok(st) = fstat(fd) {
            v.push(FdInfo { fd, dev: st.id.dev, ino: st.id.ino, ftype: st.ftype(), cloexec: fdfl & libc::FD_CLOEXEC != 0, getfl: fcntl_getfl(fd), procfs: fstatfs_type(fd) == Ok(PROC_SUPER_MAGIC) });
        }
    }
    v
}

#[derive(Clone, Debug, Default, Serialize, Deserialize)]
pub struct CallRec {
    pub id: u32,
    pub trace: Vec<Sys>,
    pub n_syscalls: usize,
    pub fds_before: Vec<FdInfo>,
    pub fds_after: Vec<FdInfo>,
    /// problems the supervisor noticed on-line (non-cloexec descriptor, bound exceeded…)
    pub alarms: Vec<String>,
    pub bound_exceeded: bool,
}

pub enum Action {
    Continue,
    Errno(i32),
}

pub type Hook = Box<dyn FnMut(&Sys, &mut CallRec) -> Action + Send>;

pub struct Policy {
    /// record every in-call syscall
    pub observe: bool,
    /// resolve what each dirfd refers to (costs two syscalls per dirfd)
    pub kinds: bool,
    /// descriptor table before/after each call
    pub audit_fds: bool,
    /// check on-line that descriptors opened during a call are close-on-exec
    pub check_cloexec: bool,
    /// upper bound on in-call syscalls; beyond it the call is unwound with sticky EIO
    pub max_syscalls: usize,
    pub hook: Option<Hook>,
    pub fd_limit: i32,
}

impl Default for Policy {
    fn default() -> Self {
        Policy { observe: true, kinds: true, audit_fds: false, check_cloexec: false, max_syscalls: 200_000, hook: None, fd_limit: 128 }
    }
}

struct Shared {
    listener: AtomicI32,
    stop: AtomicBool,
    /// eventfd that wakes the supervisor's poll when `stop` is set
    wake: i32,
    calls: Mutex<Vec<CallRec>>,
    fatal: Mutex<Option<String>>,
}

pub struct Gate {
    shared: Arc<Shared>,
    sup: Option<std::thread::JoinHandle<()>>,
}

pub struct WorkerGate {
    notify: bool,
}

impl WorkerGate {
    pub fn notifying() -> WorkerGate {
        WorkerGate { notify: true }
    }
    /// Tell the supervisor that library call `id` starts now.
    pub fn enter(&self, id: u32) {
        if self.notify {
            unsafe { libc::syscall(libc::SYS_fcntl, MARK_FD, MARK_ENTER, id as libc::c_ulong) };
        }
    }
    /// …and that it has ended (all library objects of the call except the
    /// returned one have been dropped).
    pub fn exit(&self) {
        if self.notify {
            unsafe { libc::syscall(libc::SYS_fcntl, MARK_FD, MARK_EXIT, 0) };
        }
    }
}

fn read_cstr(ptr: u64) -> B {
    if ptr == 0 {
        return B::new("<NULL>");
    }
    let c = unsafe { CStr::from_ptr(ptr as *const libc::c_char) };
    B(c.to_bytes().to_vec())
}

pub fn fd_kind(fd: i32) -> FdKind {
    if fd == libc::AT_FDCWD {
        return FdKind::Cwd;
    }
    if fd < 0 {
        return FdKind::Bad;
    }
    match fstat(fd) {
        Err(_) => FdKind::Bad,
        Ok(st) => {
            if fstatfs_type(fd) == Ok(PROC_SUPER_MAGIC) {
                FdKind::Procfs { ino: st.id.ino, ftype: st.ftype() }
            } else {
                FdKind::Inode { dev: st.id.dev, ino: st.id.ino, ftype: st.ftype() }
            }
        }
    }
}

fn decode(idx: usize, d: &SeccompData, observe: bool) -> Sys {
    let nr = d.nr as i64;
    let ds = desc(nr);
    let mut sys = Sys {
        idx,
        nr,
        name: ds.map(|x| x.name.to_string()).unwrap_or_else(|| format!("sys_{}", nr)),
        args: d.args,
        dirfds: vec![],
        paths: vec![],
        flags: 0,
        how: None,
        injected: None,
    };
    if let Some(ds) = ds {
        for &i in ds.dirfds {
            let fd = d.args[i] as i32;
            sys.dirfds.push((fd, if observe { fd_kind(fd) } else { FdKind::NotAnFd }));
        }
        for &i in ds.paths {
            sys.paths.push(read_cstr(d.args[i]));
        }
        if ds.flags != NONE {
            sys.flags = d.args[ds.flags];
        }
        if nr == SYS_OPENAT2 && d.args[2] != 0 {
            let how = unsafe { *(d.args[2] as *const OpenHow) };
            sys.how = Some((how.flags, how.resolve));
            sys.flags = how.flags;
        }
    }
    sys
}

impl Gate {
    /// Start a supervisor. The worker thread must then call
    /// `Gate::attach_worker` before touching the library.
    pub fn start(mut policy: Policy) -> Gate {
        let shared = Arc::new(Shared {
            listener: AtomicI32::new(-1),
            stop: AtomicBool::new(false),
            wake: unsafe { libc::eventfd(0, libc::EFD_CLOEXEC | libc::EFD_NONBLOCK) },
            calls: Mutex::new(Vec::new()),
            fatal: Mutex::new(None),
        });
        let sh = shared.clone();
        let sup = std::thread::Builder::new()
            .name("pv-supervisor".into())
            .spawn(move || {
                // wait for the listener
                let lfd = loop {
                    let l = sh.listener.load(Ordering::Acquire);
                    if l >= 0 {
                        break l;
                    }
                    if sh.stop.load(Ordering::Acquire) {
                        return;
                    }
                    std::thread::yield_now();
                };
                let mut cur: Option<CallRec> = None;
                let mut idx = 0usize;
                let mut sticky_unwind = false;
                loop {
                    let mut pfds = [libc::pollfd { fd: lfd, events: libc::POLLIN, revents: 0 }, libc::pollfd { fd: sh.wake, events: libc::POLLIN, revents: 0 }];
                    let r = unsafe { libc::poll(pfds.as_mut_ptr(), 2, 200) };
                    let pfd = pfds[0];
                    if r == 0 || (r > 0 && pfd.revents == 0) {
                        if sh.stop.load(Ordering::Acquire) {
                            break;
                        }
                        continue;
                    }
                    if r < 0 {
                        if errno() == libc::EINTR {
                            continue;
                        }
                        *sh.fatal.lock().unwrap() = Some(format!("poll: {}", errno()));
                        break;
                    }
                    if pfd.revents & libc::POLLIN == 0 {
                        // POLLHUP: every filtered task is gone
                        break;
                    }
                    let mut n = SeccompNotif::default();
                    let r = unsafe { libc::ioctl(lfd, NOTIF_RECV, &mut n as *mut SeccompNotif) };
                    if r < 0 {
                        if errno() == libc::EINTR || errno() == libc::ENOENT {
                            continue;
                        }
                        *sh.fatal.lock().unwrap() = Some(format!("NOTIF_RECV: {}", errno()));
                        break;
                    }
                    let mut resp = SeccompNotifResp { id: n.id, val: 0, error: 0, flags: 1 };
                    let nr = n.data.nr as i64;
                    // marker?
                    if nr == 72 && n.data.args[0] as i32 == MARK_FD {
                        resp.flags = 0;
                        match n.data.args[1] as i32 {
                            MARK_ENTER => {
                                let mut c = CallRec { id: n.data.args[2] as u32, ..Default::default() };
                                if policy.audit_fds || policy.check_cloexec {
                                    c.fds_before = fd_table(policy.fd_limit);
                                }
                                cur = Some(c);
                                idx = 0;
                                sticky_unwind = false;
                            }
                            MARK_EXIT => {
                                if let Some(mut c) = cur.take() {
                                    if policy.audit_fds {
                                        c.fds_after = fd_table(policy.fd_limit);
                                    }
                                    c.n_syscalls = idx;
                                    sh.calls.lock().unwrap().push(c);
                                }
                            }
                            _ => {}
                        }
                    } else if HARNESS_SECTION.load(Ordering::SeqCst) {
                        // harness bookkeeping on the worker thread: just continue
                    } else if let Some(c) = cur.as_mut() {
                        let mut sys = decode(idx, &n.data, policy.observe && policy.kinds);
                        idx += 1;
                        if policy.check_cloexec {
                            for fd in 0..policy.fd_limit {
                                let f = fcntl_getfd(fd);
                                if f >= 0 && f & libc::FD_CLOEXEC == 0 && !c.fds_before.iter().any(|b| b.fd == fd) {
                                    let a = format!("descriptor {} open without FD_CLOEXEC before syscall #{} {}", fd, sys.idx, sys.short());
                                    if !c.alarms.iter().any(|x| x.starts_with(&format!("descriptor {} open", fd))) {
                                        c.alarms.push(a);
                                    }
                                }
                            }
                        }
                        let mut act = Action::Continue;
                        if idx > policy.max_syscalls {
                            if !c.bound_exceeded {
                                c.bound_exceeded = true;
                                c.alarms.push(format!("syscall bound {} exceeded", policy.max_syscalls));
                            }
                            sticky_unwind = true;
                        }
                        if sticky_unwind {
                            let neutral = desc(nr).map(|d| d.neutral).unwrap_or(false);
                            if !neutral {
                                act = Action::Errno(libc::EIO);
                            }
                        } else if let Some(h) = policy.hook.as_mut() {
                            act = h(&sys, c);
                        }
                        if let Action::Errno(e) = act {
                            resp.flags = 0;
                            resp.error = -e;
                            sys.injected = Some(e);
                        }
                        if policy.observe && c.trace.len() < 20_000 {
                            c.trace.push(sys);
                        }
                    }
                    let r = unsafe { libc::ioctl(lfd, NOTIF_SEND, &resp as *const SeccompNotifResp) };
                    if r < 0 && errno() != libc::ENOENT {
                        *sh.fatal.lock().unwrap() = Some(format!("NOTIF_SEND: {}", errno()));
                        break;
                    }
                }
                if let Some(c) = cur.take() {
                    sh.calls.lock().unwrap().push(c);
                }
            })
            .expect("spawn supervisor");
        Gate { shared, sup: Some(sup) }
    }

    pub fn attach_handle(&self) -> AttachHandle {
        AttachHandle { shared: self.shared.clone() }
    }

    /// Records of the calls completed so far (markers are synchronous, so
    /// after a job returned all of its brackets are here).
    pub fn take_calls(&self) -> Vec<CallRec> {
        std::mem::take(&mut *self.shared.calls.lock().unwrap())
    }

    /// After the worker thread has been joined.
    pub fn finish(mut self) -> Result<Vec<CallRec>, String> {
        self.shared.stop.store(true, Ordering::Release);
        let one: u64 = 1;
        unsafe { libc::write(self.shared.wake, &one as *const u64 as *const libc::c_void, 8) };
        if let Some(h) = self.sup.take() {
            let _ = h.join();
        }
        let l = self.shared.listener.load(Ordering::Acquire);
        close(l);
        close(self.shared.wake);
        if let Some(f) = self.shared.fatal.lock().unwrap().take() {
            return Err(f);
        }
        Ok(std::mem::take(&mut *self.shared.calls.lock().unwrap()))
    }
}

pub struct AttachHandle {
    shared: Arc<Shared>,
}

impl AttachHandle {
    /// To be called on the worker thread: install the filter and hand the
    /// listener to the supervisor.
    pub fn attach_worker(&self, kcfg: Kcfg) -> WorkerGate {
        let l = install_filter(&kcfg.enosys(), true).expect("install filter").unwrap();
        self.shared.listener.store(l, Ordering::Release);
        WorkerGate { notify: true }
    }
}

/// Worker without supervisor: only the kcfg ENOSYS filter.
pub fn attach_plain(kcfg: Kcfg) -> WorkerGate {
    install_filter(&kcfg.enosys(), false).expect("install filter");
    WorkerGate { notify: false }
}
