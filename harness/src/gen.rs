//! proptest strategies: tree recipes, path recipes, flag sets. Recipes hold
//! selector indices that are resolved monotonically against what exists, so
//! that shrinking the recipe shrinks the concrete case.

use crate::sandbox::*;
use crate::util::*;
use proptest::collection::vec;
use proptest::prelude::*;

pub fn pick(sel: u16, len: usize) -> usize {
    if len == 0 {
        0
    } else {
        ((sel as usize) * len) >> 16
    }
}

pub const ALPHA: [&str; 5] = ["a", "b", "c", "d", "e"];

pub fn odd_names() -> Vec<Vec<u8>> {
    vec![
        b"...".to_vec(),
        b".hidden".to_vec(),
        b"with space".to_vec(),
        b"new\nline".to_vec(),
        vec![0x80, 0xff],
        b"-".to_vec(),
        b"*".to_vec(),
        vec![b'x'; 255],
        b"..a".to_vec(),
        b"a..".to_vec(),
    ]
}

#[derive(Clone, Debug)]
pub enum LinkRecipe {
    /// relative path from the link's directory to an existing entry
    RelTo(u16),
    /// "/<existing entry>"
    AbsTo(u16),
    /// absolute with dotdots in front: "/../<entry>" or "/<entry>/../.."
    AbsDotDot(u16, bool),
    Dangling(u8),
    SelfLoop,
    /// body = name of another link (chains, cycles by chance)
    OtherLink(u16),
    Escape(u8),
    /// decorate another recipe's body with a trailing "/", "//", "/."
    Decorated(Box<LinkRecipe>, u8),
    Special(u8),
}

#[derive(Clone, Debug)]
pub enum KindRecipe {
    Dir(u8),
    File(u8),
    Fifo,
    Chr,
    Link(LinkRecipe),
    Hardlink(u16),
    /// chain of k links ending at an existing entry
    Chain(u8, u16),
    /// cycle of k links
    Cycle(u8),
}

#[derive(Clone, Debug)]
pub struct NodeRecipe {
    pub parent: u16,
    pub name: u8,
    pub kind: KindRecipe,
}

#[derive(Clone, Debug)]
pub struct TreeRecipe {
    pub nodes: Vec<NodeRecipe>,
}

pub fn link_recipe() -> impl Strategy<Value = LinkRecipe> {
    let leaf = prop_oneof![
        25 => any::<u16>().prop_map(LinkRecipe::RelTo),
        15 => any::<u16>().prop_map(LinkRecipe::AbsTo),
        7 => (any::<u16>(), any::<bool>()).prop_map(|(a, b)| LinkRecipe::AbsDotDot(a, b)),
        8 => any::<u8>().prop_map(LinkRecipe::Dangling),
        3 => Just(LinkRecipe::SelfLoop),
        8 => any::<u16>().prop_map(LinkRecipe::OtherLink),
        16 => any::<u8>().prop_map(LinkRecipe::Escape),
        6 => any::<u8>().prop_map(LinkRecipe::Special),
    ];
    leaf.prop_flat_map(|l| {
        let l2 = l.clone();
        prop_oneof![
            9 => Just(l),
            1 => any::<u8>().prop_map(move |d| LinkRecipe::Decorated(Box::new(l2.clone()), d)),
        ]
    })
}

fn kind_recipe() -> impl Strategy<Value = KindRecipe> {
    prop_oneof![
        34 => any::<u8>().prop_map(KindRecipe::Dir),
        18 => any::<u8>().prop_map(KindRecipe::File),
        3 => Just(KindRecipe::Fifo),
        2 => Just(KindRecipe::Chr),
        32 => link_recipe().prop_map(KindRecipe::Link),
        3 => any::<u16>().prop_map(KindRecipe::Hardlink),
        5 => (any::<u8>(), any::<u16>()).prop_map(|(k, t)| KindRecipe::Chain(k, t)),
        3 => any::<u8>().prop_map(KindRecipe::Cycle),
    ]
}

pub fn tree_recipe(max_nodes: usize) -> impl Strategy<Value = TreeRecipe> {
    vec((any::<u16>(), any::<u8>(), kind_recipe()).prop_map(|(parent, name, kind)| NodeRecipe { parent, name, kind }), 1..=max_nodes)
        .prop_map(|nodes| TreeRecipe { nodes })
}

fn name_of(sel: u8) -> Vec<u8> {
    // 80% small alphabet, 20% odd names
    if sel < 205 {
        ALPHA[(sel as usize) % ALPHA.len()].as_bytes().to_vec()
    } else {
        let o = odd_names();
        o[(sel as usize - 205) % o.len()].clone()
    }
}

fn rel_from(dir: &B, target: &B) -> Vec<u8> {
    // relative path from directory `dir` to `target` (both relative to root)
    let d: Vec<&[u8]> = if dir.0.is_empty() { vec![] } else { dir.0.split(|&c| c == b'/').collect() };
    let t: Vec<&[u8]> = if target.0.is_empty() { vec![] } else { target.0.split(|&c| c == b'/').collect() };
    let mut i = 0;
    while i < d.len() && i < t.len() && d[i] == t[i] {
        i += 1;
    }
    let mut parts: Vec<Vec<u8>> = vec![];
    for _ in i..d.len() {
        parts.push(b"..".to_vec());
    }
    for x in &t[i..] {
        parts.push(x.to_vec());
    }
    if parts.is_empty() {
        return b".".to_vec();
    }
    parts.join(&b'/')
}

const ESCAPES: &[&[u8]] = &[
    b"..",
    b"../..",
    b"../../..",
    b"../../../../../../..",
    b"../../../outside/secret.f",
    b"../outside/dir",
    b"@OUT@/secret.f",
    b"@OUT@/dir",
    b"@OUT@",
    b"@OUT@/link",
    b"/proc/self/root",
    b"/etc/passwd",
    b"/../outside",
    b"/../../outside/dir/child",
    b"../a",
    b"../f",
];

const SPECIALS: &[&[u8]] = &[b".", b"/", b"//", b"/.", b"./", b"./.", b"/..", b"../.", b"a/../../b"];

pub fn link_body(l: &LinkRecipe, dir: &B, myname: &[u8], existing: &[B], links: &[B]) -> Vec<u8> {
    match l {
        LinkRecipe::RelTo(s) => {
            if existing.is_empty() {
                b"nonexist".to_vec()
            } else {
                rel_from(dir, &existing[pick(*s, existing.len())])
            }
        }
        LinkRecipe::AbsTo(s) => {
            let mut v = b"/".to_vec();
            if !existing.is_empty() {
                v.extend_from_slice(&existing[pick(*s, existing.len())].0);
            }
            v
        }
        LinkRecipe::AbsDotDot(s, front) => {
            let e = if existing.is_empty() { b"a".to_vec() } else { existing[pick(*s, existing.len())].0.clone() };
            if *front {
                [b"/../".to_vec(), e].concat()
            } else {
                [b"/".to_vec(), e, b"/../..".to_vec()].concat()
            }
        }
        LinkRecipe::Dangling(k) => match k % 4 {
            0 => b"nonexist".to_vec(),
            1 => b"a/nonexist".to_vec(),
            2 => b"/nonexist/x".to_vec(),
            _ => b"../nonexist".to_vec(),
        },
        LinkRecipe::SelfLoop => myname.to_vec(),
        LinkRecipe::OtherLink(s) => {
            if links.is_empty() {
                myname.to_vec()
            } else {
                rel_from(dir, &links[pick(*s, links.len())])
            }
        }
        LinkRecipe::Escape(k) => ESCAPES[*k as usize % ESCAPES.len()].to_vec(),
        LinkRecipe::Special(k) => SPECIALS[*k as usize % SPECIALS.len()].to_vec(),
        LinkRecipe::Decorated(inner, d) => {
            let mut b = link_body(inner, dir, myname, existing, links);
            match d % 3 {
                0 => b.extend_from_slice(b"/"),
                1 => b.extend_from_slice(b"//"),
                _ => b.extend_from_slice(b"/."),
            }
            b
        }
    }
}

pub fn build_tree(r: &TreeRecipe) -> TreeSpec {
    let mut spec = TreeSpec::default();
    let mut dirs: Vec<B> = vec![B::new("")];
    let mut existing: Vec<B> = vec![];
    let mut links: Vec<B> = vec![];
    let exists = |spec: &TreeSpec, p: &B| spec.entries.iter().any(|(q, _)| q == p);
    let mut uniq = 0u32;
    for n in &r.nodes {
        let dir = dirs[pick(n.parent, dirs.len())].clone();
        let name = name_of(n.name);
        let path = dir.join(&name);
        if exists(&spec, &path) || path.len() > 900 {
            continue;
        }
        match &n.kind {
            KindRecipe::Dir(m) => {
                let mode = match m % 16 {
                    0 => 0o700,
                    1 => 0o1777,
                    2 => 0o2755,
                    _ => 0o755,
                };
                spec.entries.push((path.clone(), Node::Dir { mode }));
                dirs.push(path.clone());
                existing.push(path);
            }
            KindRecipe::File(c) => {
                uniq += 1;
                let mode = if c % 8 == 0 { 0o600 } else { 0o644 };
                spec.entries.push((path.clone(), Node::File { mode, content: B::new(format!("inside-{}-{}", uniq, c)) }));
                existing.push(path);
            }
            KindRecipe::Fifo => {
                spec.entries.push((path.clone(), Node::Fifo));
                existing.push(path);
            }
            KindRecipe::Chr => {
                spec.entries.push((path.clone(), Node::Chr));
                existing.push(path);
            }
            KindRecipe::Link(l) => {
                let body = link_body(l, &dir, &name, &existing, &links);
                spec.entries.push((path.clone(), Node::Symlink { body: B(body) }));
                links.push(path.clone());
                existing.push(path);
            }
            KindRecipe::Hardlink(t) => {
                let files: Vec<&B> = spec.entries.iter().filter(|(_, n)| matches!(n, Node::File { .. } | Node::Symlink { .. } | Node::Fifo)).map(|(p, _)| p).collect();
                if files.is_empty() {
                    continue;
                }
                let to = files[pick(*t, files.len())].clone();
                spec.entries.push((path.clone(), Node::Hardlink { to }));
                existing.push(path);
            }
            KindRecipe::Chain(k, t) => {
                // name.0 -> name.1 -> ... -> target ; `name` itself is the head
                let k = [1usize, 2, 5, 39, 40, 41][*k as usize % 6];
                let target = if existing.is_empty() { b"nonexist".to_vec() } else { rel_from(&dir, &existing[pick(*t, existing.len())]) };
                let mut ok = true;
                for i in 1..k {
                    let p = dir.join(&[name.clone(), format!(".{}", i).into_bytes()].concat());
                    if exists(&spec, &p) {
                        ok = false;
                    }
                }
                if !ok || name.len() > 200 {
                    continue;
                }
                for i in 0..k {
                    let nm = if i == 0 { name.clone() } else { [name.clone(), format!(".{}", i).into_bytes()].concat() };
                    let body = if i + 1 == k { target.clone() } else { [name.clone(), format!(".{}", i + 1).into_bytes()].concat() };
                    let p = dir.join(&nm);
                    spec.entries.push((p.clone(), Node::Symlink { body: B(body) }));
                    links.push(p.clone());
                    if i == 0 {
                        existing.push(p);
                    }
                }
            }
            KindRecipe::Cycle(k) => {
                let k = 2 + (*k as usize % 2);
                let mut ok = true;
                for i in 1..k {
                    let p = dir.join(&[name.clone(), format!(".c{}", i).into_bytes()].concat());
                    if exists(&spec, &p) {
                        ok = false;
                    }
                }
                if !ok || name.len() > 200 {
                    continue;
                }
                for i in 0..k {
                    let nm = if i == 0 { name.clone() } else { [name.clone(), format!(".c{}", i).into_bytes()].concat() };
                    let next = (i + 1) % k;
                    let body = if next == 0 { name.clone() } else { [name.clone(), format!(".c{}", next).into_bytes()].concat() };
                    let p = dir.join(&nm);
                    spec.entries.push((p.clone(), Node::Symlink { body: B(body) }));
                    links.push(p.clone());
                    if i == 0 {
                        existing.push(p);
                    }
                }
            }
        }
    }
    spec
}

// ---------------------------------------------------------------------------
// Paths

#[derive(Clone, Debug)]
pub enum Comp {
    Child(u16),
    DotDot,
    Dot,
    Empty,
    Missing(u8),
    Odd(u8),
}

#[derive(Clone, Debug)]
pub enum PathRecipe {
    Walk { lead: u8, comps: Vec<Comp>, trail: u8 },
    /// an existing entry's path, optionally decorated
    Entry { sel: u16, lead: u8, trail: u8, dotdot_roundtrip: bool },
    Raw(u8),
}

fn comp() -> impl Strategy<Value = Comp> {
    prop_oneof![
        70 => any::<u16>().prop_map(Comp::Child),
        10 => Just(Comp::DotDot),
        5 => Just(Comp::Dot),
        5 => Just(Comp::Empty),
        5 => any::<u8>().prop_map(Comp::Missing),
        5 => any::<u8>().prop_map(Comp::Odd),
    ]
}

pub fn path_recipe() -> impl Strategy<Value = PathRecipe> {
    prop_oneof![
        60 => (0u8..8, vec(comp(), 0..12), 0u8..13).prop_map(|(lead, comps, trail)| PathRecipe::Walk { lead, comps, trail }),
        30 => (any::<u16>(), 0u8..8, 0u8..13, any::<bool>()).prop_map(|(sel, lead, trail, d)| PathRecipe::Entry { sel, lead, trail, dotdot_roundtrip: d }),
        10 => any::<u8>().prop_map(PathRecipe::Raw),
    ]
}

fn lead_bytes(lead: u8) -> &'static [u8] {
    // mostly relative; sometimes 1-3 leading slashes
    match lead {
        0..=4 => b"",
        5 => b"/",
        6 => b"//",
        _ => b"///",
    }
}

pub fn trail_bytes(trail: u8) -> &'static [u8] {
    match trail {
        0..=6 => b"",
        7 => b"/",
        8 => b"/.",
        9 => b"/..",
        10 => b"//",
        11 => b"\0.bak",
        _ => b"/./",
    }
}

/// children of lexical directory `dir` in the spec
fn children(spec: &TreeSpec, dir: &B) -> Vec<(Vec<u8>, Node)> {
    let mut v = vec![];
    for (p, n) in &spec.entries {
        let (par, name) = split_parent(p);
        if &par == dir {
            v.push((name, n.clone()));
        }
    }
    v
}

pub fn split_parent(p: &B) -> (B, Vec<u8>) {
    match p.0.iter().rposition(|&c| c == b'/') {
        None => (B::new(""), p.0.clone()),
        Some(i) => (B(p.0[..i].to_vec()), p.0[i + 1..].to_vec()),
    }
}

/// lexical normalisation inside the root ("..": clamp at root)
pub fn lex_norm(base: &B, rel: &[u8]) -> B {
    let mut parts: Vec<Vec<u8>> = if rel.starts_with(b"/") || base.0.is_empty() { vec![] } else { base.0.split(|&c| c == b'/').map(|s| s.to_vec()).collect() };
    for c in rel.split(|&c| c == b'/') {
        match c {
            b"" | b"." => {}
            b".." => {
                parts.pop();
            }
            x => parts.push(x.to_vec()),
        }
    }
    B(parts.join(&b'/'))
}

pub fn build_path(spec: &TreeSpec, r: &PathRecipe) -> B {
    match r {
        PathRecipe::Raw(k) => match k % 12 {
            0 => B::new(""),
            1 => B::new("/"),
            2 => B::new("//"),
            3 => B::new("."),
            4 => B::new(".."),
            5 => B::new("../.."),
            6 => B::new("../../../../../../../.."),
            7 => B([b"a/".repeat(2046), b"a".to_vec()].concat()), // 4093 bytes
            8 => B(vec![b'y'; 256]),
            9 => B::new("./"),
            10 => B::new("/.."),
            _ => B::new("/../a"),
        },
        PathRecipe::Entry { sel, lead, trail, dotdot_roundtrip } => {
            let ps = spec.paths();
            if ps.is_empty() {
                return B::new(".");
            }
            let p = &ps[pick(*sel, ps.len())];
            let mut v = lead_bytes(*lead).to_vec();
            if *dotdot_roundtrip {
                // "<dir>/../<dir>/<rest>" style decoration on the first component
                if let Some(i) = p.0.iter().position(|&c| c == b'/') {
                    v.extend_from_slice(&p.0[..i]);
                    v.extend_from_slice(b"/../");
                }
            }
            v.extend_from_slice(&p.0);
            v.extend_from_slice(trail_bytes(*trail));
            B(v)
        }
        PathRecipe::Walk { lead, comps, trail } => {
            let mut cur = B::new("");
            let mut known = true;
            let mut parts: Vec<Vec<u8>> = vec![];
            for c in comps {
                match c {
                    Comp::Child(s) => {
                        let ch = if known { children(spec, &cur) } else { vec![] };
                        if ch.is_empty() {
                            parts.push(ALPHA[pick(*s, ALPHA.len())].as_bytes().to_vec());
                            known = false;
                        } else {
                            let (name, node) = &ch[pick(*s, ch.len())];
                            parts.push(name.clone());
                            match node {
                                Node::Dir { .. } => cur = cur.join(name),
                                Node::Symlink { body } => {
                                    let t = lex_norm(&cur, &body.0);
                                    if t.0.is_empty() || matches!(spec.node(&t), Some(Node::Dir { .. })) {
                                        cur = t;
                                    } else {
                                        known = false;
                                    }
                                }
                                _ => known = false,
                            }
                        }
                    }
                    Comp::DotDot => {
                        parts.push(b"..".to_vec());
                        cur = lex_norm(&cur, b"..");
                    }
                    Comp::Dot => parts.push(b".".to_vec()),
                    Comp::Empty => parts.push(b"".to_vec()),
                    Comp::Missing(k) => {
                        parts.push(format!("missing{}", k % 3).into_bytes());
                        known = false;
                    }
                    Comp::Odd(k) => {
                        let o = odd_names();
                        parts.push(o[*k as usize % o.len()].clone());
                        known = false;
                    }
                }
            }
            let mut v = lead_bytes(*lead).to_vec();
            v.extend_from_slice(&parts.join(&b'/'));
            v.extend_from_slice(trail_bytes(*trail));
            if v.len() > 4000 {
                v.truncate(4000);
            }
            B(v)
        }
    }
}

// ---------------------------------------------------------------------------
// Open flags

/// Flag sets for one-shot open / reopen that openat2 accepts (no creation flags).
pub fn open_flags() -> impl Strategy<Value = i32> {
    let opath = (any::<bool>(), any::<bool>(), any::<bool>()).prop_map(|(d, n, c)| {
        let mut f = libc::O_PATH;
        if d {
            f |= libc::O_DIRECTORY;
        }
        if n {
            f |= libc::O_NOFOLLOW;
        }
        if c {
            f |= libc::O_CLOEXEC;
        }
        f
    });
    let normal = (0u8..3, proptest::bits::u8::masked(0x7f)).prop_map(|(acc, bits)| {
        let mut f = match acc {
            0 => libc::O_RDONLY,
            1 => libc::O_WRONLY,
            _ => libc::O_RDWR,
        };
        let table = [libc::O_DIRECTORY, libc::O_NOFOLLOW, libc::O_NONBLOCK, libc::O_APPEND, libc::O_NOATIME, libc::O_CLOEXEC, libc::O_NOCTTY];
        for (i, fl) in table.iter().enumerate() {
            if bits & (1 << i) != 0 {
                f |= fl;
            }
        }
        // blocking opens of FIFOs hang both back-ends alike
        f | libc::O_NONBLOCK
    });
    let extra = (0u8..3, proptest::bits::u8::masked(0x0f)).prop_map(|(acc, bits)| {
        let mut f = match acc {
            0 => libc::O_RDONLY,
            1 => libc::O_WRONLY,
            _ => libc::O_RDWR,
        };
        let table = [libc::O_SYNC, libc::O_DSYNC, libc::O_TRUNC, libc::O_LARGEFILE];
        for (i, fl) in table.iter().enumerate() {
            if bits & (1 << i) != 0 {
                f |= fl;
            }
        }
        f | libc::O_NONBLOCK
    });
    prop_oneof![3 => opath, 6 => normal, 1 => extra]
}

// ---------------------------------------------------------------------------
// Operations

use crate::ops::Op;

#[derive(Clone, Debug)]
pub enum NewPath {
    /// "<existing entry or root>/<fresh name>"
    NewIn { sel: u16, name: u8, trail: u8 },
    /// any path from the general recipe (mostly existing)
    Any(PathRecipe),
    /// "<existing>/<sub>/<sub>" (for mkdir_all)
    Deep { sel: u16, names: Vec<u8>, trail: u8 },
}

// (the last two: a NUL inside the final component -- a C-string conversion that
// truncates would act on "new0" resp. on the existing entry "a")
const FRESH: [&str; 10] = ["new0", "new1", "a", "b", "z", "..", ".", "new0/x", "new0\0.tmp", "a\0b"];

pub fn build_new_path(spec: &TreeSpec, r: &NewPath) -> B {
    match r {
        NewPath::Any(p) => build_path(spec, p),
        NewPath::NewIn { sel, name, trail } => {
            // mostly below directories (or links, which may lead to one)
            let mut ps: Vec<B> = if name % 4 != 3 {
                let mut v = spec.dirs();
                v.extend(spec.entries.iter().filter(|(_, n)| matches!(n, Node::Symlink { .. })).map(|(p, _)| p.clone()));
                v
            } else {
                spec.paths()
            };
            ps.push(B::new(""));
            let base = ps[pick(*sel, ps.len())].clone();
            let mut v = base.join(FRESH[*name as usize % FRESH.len()].as_bytes()).0;
            v.extend_from_slice(trail_bytes(*trail));
            B(v)
        }
        NewPath::Deep { sel, names, trail } => {
            // mostly below directories or links (which may lead to one); sometimes below anything
            let mut ps = if trail % 3 != 0 {
                let mut v = spec.dirs();
                v.extend(spec.entries.iter().filter(|(_, n)| matches!(n, Node::Symlink { .. })).map(|(p, _)| p.clone()));
                v
            } else {
                spec.paths()
            };
            ps.push(B::new(""));
            let mut p = ps[pick(*sel, ps.len())].clone();
            for n in names {
                let comp: &[u8] = match n % 12 {
                    0 => b"..",
                    1 => b".",
                    2 => b"",
                    3 => b"a",
                    4 => b"b",
                    k => FRESH[(k as usize) % 2].as_bytes(),
                };
                let mut v = p.0.clone();
                if !v.is_empty() {
                    v.push(b'/');
                }
                v.extend_from_slice(comp);
                p = B(v);
            }
            let mut v = p.0;
            v.extend_from_slice(trail_bytes(*trail));
            B(v)
        }
    }
}

pub fn new_path() -> impl Strategy<Value = NewPath> {
    prop_oneof![
        6 => (any::<u16>(), any::<u8>(), 0u8..10).prop_map(|(sel, name, trail)| NewPath::NewIn { sel, name, trail }),
        3 => path_recipe().prop_map(NewPath::Any),
        2 => (any::<u16>(), vec(any::<u8>(), 1..4), 0u8..10).prop_map(|(sel, names, trail)| NewPath::Deep { sel, names, trail }),
    ]
}

#[derive(Clone, Debug)]
pub enum OpRecipe {
    Resolve(PathRecipe),
    ResolveNofollow(PathRecipe),
    Readlink(PathRecipe),
    Open(PathRecipe, i32),
    Mkdir(NewPath, u8),
    Mkfile(NewPath, u8),
    Mkfifo(NewPath, u8),
    Mkchr(NewPath, u8),
    Symlink(NewPath, LinkRecipe),
    Hardlink(NewPath, PathRecipe),
    CreateFile(NewPath, i32, u8),
    MkdirAll(NewPath, u8),
    RemoveFile(PathRecipe),
    RemoveDir(PathRecipe),
    RemoveAll(PathRecipe),
    Rename(PathRecipe, NewPath, u8),
}

pub fn mode_of(k: u8) -> u32 {
    match k % 8 {
        0 => 0o644,
        1 => 0o755,
        2 => 0o700,
        3 => 0o000,
        4 => 0o1777,
        5 => 0o4755,
        6 => 0o2755,
        _ => 0o600,
    }
}

pub fn create_flags() -> impl Strategy<Value = i32> {
    (0u8..3, proptest::bits::u8::masked(0x7f), 0u8..16).prop_map(|(acc, bits, opath)| {
        let mut f = match acc {
            0 => libc::O_RDONLY,
            1 => libc::O_WRONLY,
            _ => libc::O_RDWR,
        };
        let table = [libc::O_EXCL, libc::O_TRUNC, libc::O_APPEND, libc::O_NONBLOCK, libc::O_CLOEXEC, libc::O_DIRECTORY, libc::O_NOFOLLOW];
        for (i, fl) in table.iter().enumerate() {
            // O_DIRECTORY rarely: O_CREAT|O_DIRECTORY is EINVAL on current kernels
            if bits & (1 << i) != 0 && (i != 5 || bits & 0x0f == 0x0f) {
                f |= fl;
            }
        }
        if opath == 0 {
            f |= libc::O_PATH;
        }
        f | libc::O_NONBLOCK
    })
}

pub fn rename_flags(k: u8) -> u32 {
    match k % 8 {
        0..=3 => 0,
        4 => 1, // NOREPLACE
        5 => 2, // EXCHANGE
        6 => 4, // WHITEOUT
        _ => 3, // invalid combination
    }
}

pub fn op_recipe() -> impl Strategy<Value = OpRecipe> {
    prop_oneof![
        3 => path_recipe().prop_map(OpRecipe::Resolve),
        2 => path_recipe().prop_map(OpRecipe::ResolveNofollow),
        2 => path_recipe().prop_map(OpRecipe::Readlink),
        4 => (path_recipe(), open_flags()).prop_map(|(p, f)| OpRecipe::Open(p, f)),
        3 => (new_path(), any::<u8>()).prop_map(|(p, m)| OpRecipe::Mkdir(p, m)),
        2 => (new_path(), any::<u8>()).prop_map(|(p, m)| OpRecipe::Mkfile(p, m)),
        1 => (new_path(), any::<u8>()).prop_map(|(p, m)| OpRecipe::Mkfifo(p, m)),
        1 => (new_path(), any::<u8>()).prop_map(|(p, m)| OpRecipe::Mkchr(p, m)),
        3 => (new_path(), link_recipe()).prop_map(|(p, l)| OpRecipe::Symlink(p, l)),
        2 => (new_path(), path_recipe()).prop_map(|(p, t)| OpRecipe::Hardlink(p, t)),
        4 => (new_path(), create_flags(), any::<u8>()).prop_map(|(p, f, m)| OpRecipe::CreateFile(p, f, m)),
        4 => (new_path(), any::<u8>()).prop_map(|(p, m)| OpRecipe::MkdirAll(p, m)),
        3 => path_recipe().prop_map(OpRecipe::RemoveFile),
        3 => path_recipe().prop_map(OpRecipe::RemoveDir),
        3 => path_recipe().prop_map(OpRecipe::RemoveAll),
        4 => (path_recipe(), new_path(), any::<u8>()).prop_map(|(s, d, f)| OpRecipe::Rename(s, d, f)),
    ]
}

pub fn mutating_op_recipe() -> impl Strategy<Value = OpRecipe> {
    op_recipe().prop_filter("mutating", |o| !matches!(o, OpRecipe::Resolve(_) | OpRecipe::ResolveNofollow(_) | OpRecipe::Readlink(_) | OpRecipe::Open(..)))
}

pub fn build_op(spec: &TreeSpec, r: &OpRecipe) -> Op {
    match r {
        OpRecipe::Resolve(p) => Op::Resolve { path: build_path(spec, p) },
        OpRecipe::ResolveNofollow(p) => Op::ResolveNofollow { path: build_path(spec, p) },
        OpRecipe::Readlink(p) => Op::Readlink { path: build_path(spec, p) },
        OpRecipe::Open(p, f) => Op::Open { path: build_path(spec, p), flags: *f },
        OpRecipe::Mkdir(p, m) => Op::Mkdir { path: build_new_path(spec, p), mode: mode_of(*m) },
        OpRecipe::Mkfile(p, m) => Op::Mkfile { path: build_new_path(spec, p), mode: mode_of(*m) },
        OpRecipe::Mkfifo(p, m) => Op::Mkfifo { path: build_new_path(spec, p), mode: mode_of(*m) },
        OpRecipe::Mkchr(p, m) => Op::Mkchr { path: build_new_path(spec, p), mode: mode_of(*m) },
        OpRecipe::Symlink(p, l) => {
            let path = build_new_path(spec, p);
            let (dir, name) = split_parent(&path);
            let existing = spec.paths();
            let links: Vec<B> = spec.entries.iter().filter(|(_, n)| matches!(n, Node::Symlink { .. })).map(|(p, _)| p.clone()).collect();
            let body = link_body(l, &dir, &name, &existing, &links);
            // the OUT token only makes sense in materialised trees
            let body = replace_token(&body, OUT_TOKEN, b"/nonexistent-out");
            Op::Symlink { path, target: B(body) }
        }
        OpRecipe::Hardlink(p, t) => Op::Hardlink { path: build_new_path(spec, p), target: build_path(spec, t) },
        OpRecipe::CreateFile(p, f, m) => Op::CreateFile { path: build_new_path(spec, p), flags: *f, mode: mode_of(*m) },
        OpRecipe::MkdirAll(p, m) => Op::MkdirAll { path: build_new_path(spec, p), mode: mode_of(*m) },
        OpRecipe::RemoveFile(p) => Op::RemoveFile { path: build_path(spec, p) },
        OpRecipe::RemoveDir(p) => Op::RemoveDir { path: build_path(spec, p) },
        OpRecipe::RemoveAll(p) => Op::RemoveAll { path: build_path(spec, p) },
        OpRecipe::Rename(s, d, f) => Op::Rename { src: build_path(spec, s), dst: build_new_path(spec, d), flags: rename_flags(*f) },
    }
}
