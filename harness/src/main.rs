mod attack;
mod capi;
mod driver;
mod exec;
mod gate;
mod gen;
mod ops;
mod props;
mod sandbox;
mod sched;
mod util;
mod workload;

use driver::*;
use std::path::Path;

fn usage() -> ! {
    eprintln!("usage: pv check <ID> <quick|thorough> | pv replay <ID> <file> | pv lane <ID> <tier> <lane> <lanes> <seed> <out> | pv list");
    std::process::exit(2)
}

fn tier_of(s: &str) -> Tier {
    match s {
        "quick" => Tier::Quick,
        "thorough" => Tier::Thorough,
        _ => usage(),
    }
}

fn main() {
    // One malloc arena for the whole process: glibc's per-thread arenas read
    // /proc/sys/vm/overcommit_memory (a filtered openat) while holding the
    // arena lock the first time they shrink, which dead-locks against a
    // supervisor thread that needs the same arena to record the notification.
    unsafe { libc::mallopt(libc::M_ARENA_MAX, 1) };
    let args: Vec<String> = std::env::args().collect();
    if args.len() < 2 {
        usage();
    }
    let props = props::all();
    let find = |id: &str| -> &'static Prop {
        props.iter().copied().find(|p| p.id == id).unwrap_or_else(|| {
            eprintln!("unknown property {}", id);
            std::process::exit(2)
        })
    };
    match args[1].as_str() {
        "bench" => {
            props::c10::bench();
        }
        "list" => {
            for p in &props {
                println!("{}", p.id);
            }
        }
        "check" if args.len() >= 4 => {
            let prop = find(&args[2]);
            let tier = tier_of(&args[3]);
            let seed = std::env::var("VERIF_SEED").ok().and_then(|s| s.parse::<u64>().ok()).unwrap_or(1);
            std::process::exit(check_main(prop, tier, seed));
        }
        "replay" if args.len() >= 4 => {
            let prop = find(&args[2]);
            std::process::exit(replay_main(prop, Path::new(&args[3])));
        }
        "lane" if args.len() >= 8 => {
            let prop = find(&args[2]);
            let ctx = Ctx {
                id: prop.id.to_string(),
                tier: tier_of(&args[3]),
                lane: args[4].parse().unwrap(),
                lanes: args[5].parse().unwrap(),
                seed: args[6].parse().unwrap(),
                strict: false,
                known: load_known(),
            };
            lane_main(prop, &ctx, Path::new(&args[7]));
        }
        _ => usage(),
    }
}
