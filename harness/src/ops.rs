//! The vocabulary of Root operations shared by all drivers, executed through
//! the Rust API or the C API.

use crate::capi::*;
use crate::exec::*;
use crate::util::*;
use pathrs::flags::{OpenFlags, RenameFlags, ResolverFlags};
use pathrs::{InodeType, Root, RootRef};
use serde::{Deserialize, Serialize};
use std::fs::Permissions;
use std::os::unix::fs::PermissionsExt;
use std::os::unix::io::{AsFd, AsRawFd, FromRawFd, OwnedFd};

#[derive(Clone, Debug, PartialEq, Eq, Hash, Serialize, Deserialize)]
pub enum Op {
    Resolve { path: B },
    ResolveNofollow { path: B },
    Readlink { path: B },
    Open { path: B, flags: i32 },
    Mkdir { path: B, mode: u32 },
    Mkfile { path: B, mode: u32 },
    Mkfifo { path: B, mode: u32 },
    Mkchr { path: B, mode: u32 },
    Symlink { path: B, target: B },
    Hardlink { path: B, target: B },
    CreateFile { path: B, flags: i32, mode: u32 },
    MkdirAll { path: B, mode: u32 },
    RemoveFile { path: B },
    RemoveDir { path: B },
    RemoveAll { path: B },
    Rename { src: B, dst: B, flags: u32 },
}

impl Op {
    pub fn name(&self) -> &'static str {
        match self {
            Op::Resolve { .. } => "resolve",
            Op::ResolveNofollow { .. } => "resolve_nofollow",
            Op::Readlink { .. } => "readlink",
            Op::Open { .. } => "open_subpath",
            Op::Mkdir { .. } => "create(dir)",
            Op::Mkfile { .. } => "create(file)",
            Op::Mkfifo { .. } => "create(fifo)",
            Op::Mkchr { .. } => "create(chr)",
            Op::Symlink { .. } => "create(symlink)",
            Op::Hardlink { .. } => "create(hardlink)",
            Op::CreateFile { .. } => "create_file",
            Op::MkdirAll { .. } => "mkdir_all",
            Op::RemoveFile { .. } => "remove_file",
            Op::RemoveDir { .. } => "remove_dir",
            Op::RemoveAll { .. } => "remove_all",
            Op::Rename { .. } => "rename",
        }
    }
    pub fn is_lookup(&self) -> bool {
        matches!(self, Op::Resolve { .. } | Op::ResolveNofollow { .. } | Op::Readlink { .. } | Op::Open { .. })
    }
    pub fn path(&self) -> &B {
        match self {
            Op::Resolve { path }
            | Op::ResolveNofollow { path }
            | Op::Readlink { path }
            | Op::Open { path, .. }
            | Op::Mkdir { path, .. }
            | Op::Mkfile { path, .. }
            | Op::Mkfifo { path, .. }
            | Op::Mkchr { path, .. }
            | Op::Symlink { path, .. }
            | Op::Hardlink { path, .. }
            | Op::CreateFile { path, .. }
            | Op::MkdirAll { path, .. }
            | Op::RemoveFile { path }
            | Op::RemoveDir { path }
            | Op::RemoveAll { path } => path,
            Op::Rename { src, .. } => src,
        }
    }
    pub fn paths(&self) -> Vec<&B> {
        match self {
            Op::Rename { src, dst, .. } => vec![src, dst],
            Op::Hardlink { path, target } => vec![path, target],
            _ => vec![self.path()],
        }
    }
    pub fn has_nul(&self) -> bool {
        match self {
            Op::Symlink { path, target } => path.has_nul() || target.has_nul(),
            _ => self.paths().iter().any(|p| p.has_nul()),
        }
    }
    pub fn brief(&self) -> String {
        match self {
            Op::Open { path, flags } => format!("open_subpath(\"{}\", 0x{:x})", path, flags),
            Op::CreateFile { path, flags, mode } => format!("create_file(\"{}\", 0x{:x}, 0o{:o})", path, flags, mode),
            Op::Rename { src, dst, flags } => format!("rename(\"{}\", \"{}\", {})", src, dst, flags),
            Op::Symlink { path, target } => format!("create(\"{}\", Symlink(\"{}\"))", path, target),
            Op::Hardlink { path, target } => format!("create(\"{}\", Hardlink(\"{}\"))", path, target),
            Op::Mkdir { path, mode } | Op::Mkfile { path, mode } | Op::Mkfifo { path, mode } | Op::Mkchr { path, mode } | Op::MkdirAll { path, mode } => {
                format!("{}(\"{}\", 0o{:o})", self.name(), path, mode)
            }
            _ => format!("{}(\"{}\")", self.name(), self.path()),
        }
    }
}

pub fn open_root(path: &std::path::Path, no_symlinks: bool) -> Result<Root, Out> {
    guarded(|| Root::open(path)).map(|r| if no_symlinks { r.with_resolver_flags(ResolverFlags::NO_SYMLINKS) } else { r })
}

/// Execute `op` through the Rust API.
pub fn exec_rust(root: RootRef<'_>, op: &Op) -> (Out, Option<OwnedFd>) {
    match op {
        Op::Resolve { path } => fdres(guarded(|| root.resolve(path.as_path())).map(OwnedFd::from)),
        Op::ResolveNofollow { path } => fdres(guarded(|| root.resolve_nofollow(path.as_path())).map(OwnedFd::from)),
        Op::Readlink { path } => match guarded(|| root.readlink(path.as_path())) {
            Ok(p) => (Out::Bytes(B::new(p.as_os_str().as_encoded_bytes())), None),
            Err(o) => (o, None),
        },
        Op::Open { path, flags } => fdres(guarded(|| root.open_subpath(path.as_path(), OpenFlags::from_bits_retain(*flags))).map(OwnedFd::from)),
        Op::Mkdir { path, mode } => (out_unit(guarded(|| root.create(path.as_path(), &InodeType::Directory(Permissions::from_mode(*mode))))), None),
        Op::Mkfile { path, mode } => (out_unit(guarded(|| root.create(path.as_path(), &InodeType::File(Permissions::from_mode(*mode))))), None),
        Op::Mkfifo { path, mode } => (out_unit(guarded(|| root.create(path.as_path(), &InodeType::Fifo(Permissions::from_mode(*mode))))), None),
        Op::Mkchr { path, mode } => {
            (out_unit(guarded(|| root.create(path.as_path(), &InodeType::CharacterDevice(Permissions::from_mode(*mode), libc::makedev(1, 3))))), None)
        }
        Op::Symlink { path, target } => (out_unit(guarded(|| root.create(path.as_path(), &InodeType::Symlink(target.to_pathbuf())))), None),
        Op::Hardlink { path, target } => (out_unit(guarded(|| root.create(path.as_path(), &InodeType::Hardlink(target.to_pathbuf())))), None),
        Op::CreateFile { path, flags, mode } => {
            fdres(guarded(|| root.create_file(path.as_path(), OpenFlags::from_bits_retain(*flags), &Permissions::from_mode(*mode))).map(OwnedFd::from))
        }
        Op::MkdirAll { path, mode } => fdres(guarded(|| root.mkdir_all(path.as_path(), &Permissions::from_mode(*mode))).map(OwnedFd::from)),
        Op::RemoveFile { path } => (out_unit(guarded(|| root.remove_file(path.as_path()))), None),
        Op::RemoveDir { path } => (out_unit(guarded(|| root.remove_dir(path.as_path()))), None),
        Op::RemoveAll { path } => (out_unit(guarded(|| root.remove_all(path.as_path()))), None),
        Op::Rename { src, dst, flags } => (out_unit(guarded(|| root.rename(src.as_path(), dst.as_path(), RenameFlags::from_bits_retain(*flags)))), None),
    }
}

fn fdres(r: Result<OwnedFd, Out>) -> (Out, Option<OwnedFd>) {
    match r {
        Ok(fd) => (Out::Fd(Obj::of_fd(fd.as_raw_fd())), Some(fd)),
        Err(o) => (o, None),
    }
}

/// Execute `op` through the C API (paths must be NUL-free).
pub fn exec_c(rootfd: i32, op: &Op) -> (Out, Option<OwnedFd>) {
    let wrap = |r: libc::c_int, is_fd: bool| -> (Out, Option<OwnedFd>) {
        let (o, fd) = c_out(r, is_fd);
        (o, fd.map(|f| unsafe { OwnedFd::from_raw_fd(f) }))
    };
    unsafe {
        match op {
            Op::Resolve { path } => wrap(pathrs_inroot_resolve(rootfd, cpath(path).as_ptr()), true),
            Op::ResolveNofollow { path } => wrap(pathrs_inroot_resolve_nofollow(rootfd, cpath(path).as_ptr()), true),
            Op::Readlink { path } => {
                let mut buf = vec![0u8; 8192];
                let r = pathrs_inroot_readlink(rootfd, cpath(path).as_ptr(), buf.as_mut_ptr() as *mut libc::c_char, buf.len());
                if r >= 0 {
                    buf.truncate((r as usize).min(8192));
                    (Out::Bytes(B(buf)), None)
                } else {
                    wrap(r, false)
                }
            }
            Op::Open { path, flags } => wrap(pathrs_inroot_open(rootfd, cpath(path).as_ptr(), *flags), true),
            Op::Mkdir { path, mode } => wrap(pathrs_inroot_mkdir(rootfd, cpath(path).as_ptr(), *mode), false),
            Op::Mkfile { path, mode } => wrap(pathrs_inroot_mknod(rootfd, cpath(path).as_ptr(), libc::S_IFREG | *mode, 0), false),
            Op::Mkfifo { path, mode } => wrap(pathrs_inroot_mknod(rootfd, cpath(path).as_ptr(), libc::S_IFIFO | *mode, 0), false),
            Op::Mkchr { path, mode } => wrap(pathrs_inroot_mknod(rootfd, cpath(path).as_ptr(), libc::S_IFCHR | *mode, libc::makedev(1, 3)), false),
            Op::Symlink { path, target } => wrap(pathrs_inroot_symlink(rootfd, cpath(path).as_ptr(), cpath(target).as_ptr()), false),
            Op::Hardlink { path, target } => wrap(pathrs_inroot_hardlink(rootfd, cpath(path).as_ptr(), cpath(target).as_ptr()), false),
            Op::CreateFile { path, flags, mode } => wrap(pathrs_inroot_creat(rootfd, cpath(path).as_ptr(), *flags, *mode), true),
            Op::MkdirAll { path, mode } => wrap(pathrs_inroot_mkdir_all(rootfd, cpath(path).as_ptr(), *mode), true),
            Op::RemoveFile { path } => wrap(pathrs_inroot_unlink(rootfd, cpath(path).as_ptr()), false),
            Op::RemoveDir { path } => wrap(pathrs_inroot_rmdir(rootfd, cpath(path).as_ptr()), false),
            Op::RemoveAll { path } => wrap(pathrs_inroot_remove_all(rootfd, cpath(path).as_ptr()), false),
            Op::Rename { src, dst, flags } => wrap(pathrs_inroot_rename(rootfd, cpath(src).as_ptr(), cpath(dst).as_ptr(), *flags), false),
        }
    }
}

pub fn exec_op(root: &Root, op: &Op, capi: bool) -> (Out, Option<OwnedFd>) {
    if capi && !op.has_nul() {
        exec_c(root.as_fd().as_raw_fd(), op)
    } else {
        exec_rust(root.as_ref(), op)
    }
}

// ---------------------------------------------------------------------------
// Kernel oracle for lookups

#[derive(Clone, Debug, PartialEq, Eq, Serialize, Deserialize)]
pub enum KOut {
    Obj { id: Ident, ftype: u32, getfl: i32 },
    Bytes(B),
    Err(i32),
}

impl KOut {
    pub fn class(&self) -> String {
        match self {
            KOut::Err(e) => errno_name(*e),
            _ => "Ok".into(),
        }
    }
    pub fn brief(&self) -> String {
        match self {
            KOut::Obj { id, ftype, getfl } => format!("Ok({} ino={} getfl=0x{:x})", ftype_name(*ftype), id.ino, getfl),
            KOut::Bytes(b) => format!("Ok(\"{}\")", b),
            KOut::Err(e) => format!("Err({})", errno_name(*e)),
        }
    }
}

/// What the kernel's own in-root resolution says for a lookup op.
pub fn k_lookup(rootfd: i32, op: &Op, no_symlinks: bool) -> KOut {
    let mut resolve = RESOLVE_IN_ROOT | RESOLVE_NO_MAGICLINKS;
    if no_symlinks {
        resolve |= RESOLVE_NO_SYMLINKS;
    }
    let (path, flags) = match op {
        Op::Resolve { path } => (path, libc::O_PATH),
        Op::ResolveNofollow { path } => (path, libc::O_PATH | libc::O_NOFOLLOW),
        Op::Readlink { path } => (path, libc::O_PATH | libc::O_NOFOLLOW),
        Op::Open { path, flags } => (path, *flags),
        _ => panic!("k_lookup on non-lookup"),
    };
    match openat2_raw(rootfd, &path.0, flags as u32 as u64, 0, resolve) {
        Err(e) => KOut::Err(e),
        Ok(fd) => {
            let r = if let Op::Readlink { .. } = op {
                match readlinkat(fd, b"") {
                    Ok(b) => KOut::Bytes(B(b)),
                    Err(e) => KOut::Err(e),
                }
            } else {
                let st = fstat(fd).expect("fstat oracle fd");
                KOut::Obj { id: st.id, ftype: st.ftype(), getfl: fcntl_getfl(fd) }
            };
            close(fd);
            r
        }
    }
}
