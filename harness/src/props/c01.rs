//! C01 — in-root lookups match kernel RESOLVE_IN_ROOT semantics.

use crate::driver::*;
use crate::exec::*;
use crate::gate::*;
use crate::gen::*;
use crate::ops::*;
use crate::sandbox::*;
use crate::util::*;
use proptest::collection::vec;
use proptest::prelude::*;
use serde::{Deserialize, Serialize};
use serde_json::{json, Value};

#[derive(Clone, Debug, Serialize, Deserialize)]
pub struct Lookup {
    pub op: Op,
    pub capi: bool,
}

#[derive(Clone, Debug, Serialize, Deserialize)]
pub struct Case {
    pub tree: TreeSpec,
    pub kcfg: Kcfg,
    pub no_symlinks: bool,
    pub lookups: Vec<Lookup>,
}

#[derive(Clone, Debug)]
pub enum LOpRecipe {
    Resolve,
    ResolveNofollow,
    Readlink,
    Open(i32),
}

pub fn lop_recipe() -> impl Strategy<Value = LOpRecipe> {
    prop_oneof![
        3 => Just(LOpRecipe::Resolve),
        3 => Just(LOpRecipe::ResolveNofollow),
        2 => Just(LOpRecipe::Readlink),
        4 => open_flags().prop_map(LOpRecipe::Open),
    ]
}

pub fn make_lookup(tree: &TreeSpec, p: &PathRecipe, o: &LOpRecipe) -> Op {
    let path = build_path(tree, p);
    match o {
        LOpRecipe::Resolve => Op::Resolve { path },
        LOpRecipe::ResolveNofollow => Op::ResolveNofollow { path },
        LOpRecipe::Readlink => Op::Readlink { path },
        LOpRecipe::Open(f) => Op::Open { path, flags: *f },
    }
}

pub fn strategy(nlookups: usize) -> impl Strategy<Value = Case> {
    (
        tree_recipe(14),
        prop_oneof![1 => Just(Kcfg::Full), 1 => Just(Kcfg::NoOpenat2), 4 => Just(Kcfg::NoMountApi), 4 => Just(Kcfg::NoOpenat2NoMountApi)],
        prop_oneof![3 => Just(false), 1 => Just(true)],
        vec((path_recipe(), lop_recipe(), prop_oneof![3 => Just(false), 1 => Just(true)]), 1..=nlookups),
    )
        .prop_map(|(tr, kcfg, no_symlinks, ls)| {
            let tree = build_tree(&tr);
            let lookups = ls.iter().map(|(p, o, capi)| Lookup { op: make_lookup(&tree, p, o), capi: *capi && !no_symlinks }).collect();
            Case { tree, kcfg, no_symlinks, lookups }
        })
}

#[derive(Clone, Debug, Serialize, Deserialize)]
pub struct LookupReport {
    pub lib: Out,
    pub kernel: KOut,
    /// kernel result with RESOLVE_NO_SYMLINKS toggled (classification only)
    pub kernel_nosym_err: Option<i32>,
    pub n_syscalls: usize,
    pub n_readlinks: usize,
    pub bound_exceeded: bool,
    pub inside: Option<bool>,
    pub label: Option<B>,
    /// number of disagreeing rounds before library and kernel agreed
    pub transient: u32,
}

#[derive(Clone, Debug, Serialize, Deserialize)]
pub struct Report {
    pub root_open: Option<Out>,
    pub lookups: Vec<LookupReport>,
}

pub fn syscall_bound(case: &Case) -> usize {
    let maxc = case.lookups.iter().map(|l| l.op.path().0.split(|&c| c == b'/').count()).max().unwrap_or(1);
    let maxb = case
        .tree
        .entries
        .iter()
        .filter_map(|(_, n)| if let Node::Symlink { body } = n { Some(body.0.split(|&c| c == b'/').count()) } else { None })
        .max()
        .unwrap_or(0);
    // every emulated step costs a bounded number of system calls (open, fstat,
    // statx, readlink, fd-path checks …); generous constant factor.
    64 + 40 * (maxc + 128 * (maxb + 1))
}

fn agree(lib: &Out, k: &KOut) -> bool {
    match (lib, k) {
        (Out::Fd(o), KOut::Obj { id, ftype, .. }) => o.id() == *id && o.ftype == *ftype,
        (Out::Bytes(a), KOut::Bytes(b)) => a == b,
        (Out::Err { errno: Some(e), .. }, KOut::Err(k)) => e == k,
        _ => false,
    }
}

pub fn child(case: &Case) -> Report {
    let sb = Sandbox::create("c01");
    sb.materialise(&case.tree, &sb.root());
    let snap = Snapshot::take_path(&sb.base);
    let inside = snap.sub(&B::new("root")).idents();
    let rootfd = openat_raw(libc::AT_FDCWD, sb.root().as_os_str().as_encoded_bytes(), libc::O_PATH | libc::O_DIRECTORY, 0).expect("open root");
    let policy = Policy { observe: true, kinds: false, max_syscalls: syscall_bound(case), ..Policy::default() };
    let rootpath = sb.root();
    let rep = with_session(case.kcfg, Some(policy), |s| {
        let ro = s.run(|_wg, st| match open_root(&rootpath, case.no_symlinks) {
            Ok(r) => {
                st.root = Some(r);
                None
            }
            Err(o) => Some(o),
        });
        if ro.is_some() {
            return Report { root_open: ro, lookups: vec![] };
        }
        let mut lookups = Vec::new();
        for (i, l) in case.lookups.iter().enumerate() {
            let mut transient = 0u32;
            let mut rounds = 0;
            let (lib, kernel, call) = loop {
                let lib = s.run(|wg, st| {
                    wg.enter(i as u32);
                    let (out, fd) = exec_op(st.root.as_ref().unwrap(), &l.op, l.capi);
                    drop(fd);
                    wg.exit();
                    out
                });
                let call = s.take_calls().into_iter().find(|c| c.id == i as u32);
                let kernel = k_lookup(rootfd, &l.op, case.no_symlinks);
                rounds += 1;
                // openat2 may fail spuriously (EAGAIN; link budget consumed by
                // internal restarts) when mounts/renames happen anywhere on the
                // system, e.g. in the other lanes. A disagreement must therefore
                // be reproducible on this unmodified tree before it counts.
                // EAGAIN (or the safety violation resolve() makes of 16 of
                // them) on an unmodified tree is purely environmental: repeat.
                let eagain = matches!(&lib, Out::Err { errno: Some(e), .. } if *e == libc::EAGAIN) || (case.kcfg.has_openat2() && matches!(&lib, Out::Err { kind, .. } if kind == "safety"));
                let limit = if eagain { 80 } else { 6 };
                if agree(&lib, &kernel) || rounds >= limit || matches!(lib, Out::Panicked(_)) {
                    break (lib, kernel, call);
                }
                transient += 1;
            };
            let alt = k_lookup(rootfd, &l.op, !case.no_symlinks);
            let kernel_nosym_err = match (case.no_symlinks, &kernel, &alt) {
                (false, _, KOut::Err(e)) => Some(*e),
                (true, KOut::Err(e), _) => Some(*e),
                _ => None,
            };
            let (inside_flag, label) = match &lib {
                Out::Fd(o) => (Some(inside.contains(&o.id())), snap.label_of(o.id())),
                _ => (None, None),
            };
            lookups.push(LookupReport {
                transient: if agree(&lib, &kernel) { transient } else { 0 },
                lib,
                kernel,
                kernel_nosym_err,
                n_syscalls: call.as_ref().map(|c| c.n_syscalls).unwrap_or(0),
                n_readlinks: call.as_ref().map(|c| c.trace.iter().filter(|s| s.name == "readlinkat").count()).unwrap_or(0),
                bound_exceeded: call.as_ref().map(|c| c.bound_exceeded).unwrap_or(false),
                inside: inside_flag,
                label,
            });
        }
        s.run(|_wg, st| st.root = None);
        Report { root_open: None, lookups }
    });
    close(rootfd);
    sb.destroy();
    rep
}

fn backend(k: Kcfg) -> &'static str {
    if k.has_openat2() {
        "kernel"
    } else {
        "emulated"
    }
}

fn path_class(p: &B) -> &'static str {
    if p.0.is_empty() {
        "empty"
    } else if p.0.iter().all(|&c| c == b'/') {
        "slashes"
    } else {
        "other"
    }
}

pub fn judge(case: &Case, rep: &Report, stats: &mut Stats) -> Result<(), Fail> {
    if let Some(o) = &rep.root_open {
        return Err(Fail::Harness(format!("Root::open failed: {}", o.brief())));
    }
    let th = case.tree.hash();
    for (l, r) in case.lookups.iter().zip(rep.lookups.iter()) {
        stats.eval();
        let path = l.op.path();
        let mk = |sig: String, msg: String| -> Fail {
            let single = Case { tree: case.tree.clone(), kcfg: case.kcfg, no_symlinks: case.no_symlinks, lookups: vec![l.clone()] };
            Fail::Violation(Violation {
                check: "lookup".into(),
                signature: sig,
                message: format!(
                    "{} via {} backend{}{}\n  library: {}\n  kernel : {}\n  {}",
                    l.op.brief(),
                    backend(case.kcfg),
                    if case.no_symlinks { " NO_SYMLINKS" } else { "" },
                    if l.capi { " (C API)" } else { "" },
                    r.lib.brief(),
                    r.kernel.brief(),
                    msg
                ),
                case: serde_json::to_value(&single).unwrap(),
            })
        };
        // classification
        let crosses_symlink = r.kernel_nosym_err == Some(libc::ELOOP);
        let has_dotdot = path.0.split(|&c| c == b'/').any(|c| c == b"..");
        let kclass = r.kernel.class();
        let nontrivial = crosses_symlink || has_dotdot || (kclass != "Ok" && kclass != "ENOENT");
        stats.class(&format!("kernel:{}", kclass));
        stats.class(&format!("backend:{}", backend(case.kcfg)));
        stats.class(&format!("op:{}", l.op.name()));
        if crosses_symlink {
            stats.class("crosses-symlink");
        }
        if has_dotdot {
            stats.class("has-dotdot");
        }
        if l.capi {
            stats.class("via-c-api");
        }
        if case.no_symlinks {
            stats.class("NO_SYMLINKS");
        }
        if nontrivial {
            stats.nontrivial_key(&format!("{}|{}|{:?}|{:?}|{}|{}", th, path, l.op, case.kcfg, case.no_symlinks, l.capi));
            stats.sample(|| json!({"op": l.op.brief(), "backend": backend(case.kcfg), "no_symlinks": case.no_symlinks, "library": r.lib.brief(), "kernel": r.kernel.brief(), "tree_nodes": case.tree.entries.len()}));
            stats.class_sample(&format!("kernel:{}", kclass), || json!({"op": l.op.brief(), "backend": backend(case.kcfg), "library": r.lib.brief(), "kernel": r.kernel.brief()}));
        }

        if let Out::Panicked(m) = &r.lib {
            return Err(mk(format!("panic:{}:{}", l.op.name(), backend(case.kcfg)), format!("library panicked: {}", m)));
        }
        if r.bound_exceeded {
            return Err(mk(
                format!("unbounded:{}:{}", l.op.name(), backend(case.kcfg)),
                format!("lookup used more than {} system calls (bounded-steps clause)", syscall_bound(case)),
            ));
        }
        if r.inside == Some(false) {
            return Err(mk(
                format!("escape:{}:{}", l.op.name(), backend(case.kcfg)),
                format!("returned object is not part of the root's tree (label in sandbox: {:?})", r.label),
            ));
        }
        if r.transient > 0 {
            stats.count("transient_disagreements_resolved_by_rerun", 1);
        }
        if !agree(&r.lib, &r.kernel) {
            let eagain = matches!(&r.lib, Out::Err { errno: Some(e), .. } if *e == libc::EAGAIN) || (case.kcfg.has_openat2() && matches!(&r.lib, Out::Err { kind, .. } if kind == "safety"));
            if eagain {
                // survived 80 repetitions: the system is too busy with mounts/renames
                stats.count("discarded_persistent_EAGAIN", 1);
                continue;
            }
            // carve-out: the emulated link budget is 128, the kernel's is 40;
            // the property compares lookups that need at most 40 traversals.
            if !case.kcfg.has_openat2() && r.kernel == KOut::Err(libc::ELOOP) && r.n_readlinks > 40 {
                stats.count("discarded_over_40_traversals", 1);
                continue;
            }
            let sig = format!("mismatch:{}:{}:lib={}:kernel={}:path={}", l.op.name(), backend(case.kcfg), r.lib.class(), r.kernel.class(), path_class(path));
            return Err(mk(sig, "library and kernel disagree".into()));
        }
        if let (Out::Fd(o), KOut::Obj { getfl, .. }) = (&r.lib, &r.kernel) {
            const M: i32 = libc::O_ACCMODE | libc::O_APPEND | libc::O_NONBLOCK | libc::O_DSYNC | libc::O_SYNC | libc::O_NOATIME | libc::O_DIRECTORY | libc::O_PATH;
            if o.getfl & M != getfl & M {
                stats.count("getfl_differences_not_judged_here", 1);
            }
        }
    }
    Ok(())
}

pub fn check(case: &Case, stats: &mut Stats) -> Result<(), Fail> {
    let t0 = now_s();
    let r = run_in_child(60.0, || child(case));
    let dt = now_s() - t0;
    if dt > 5.0 {
        stats.count("slow_cases_over_5s", 1);
        if std::env::var("PV_DEBUG_SLOW").is_ok() {
            eprintln!("SLOW {:.1}s: {}", dt, serde_json::to_string(case).unwrap());
        }
    }
    match r {
        ChildOut::Ok(rep) => judge(case, &rep, stats),
        ChildOut::Crashed { sig } => Err(Fail::Violation(Violation {
            check: "lookup".into(),
            signature: format!("crash:sig{}", sig),
            message: format!("child died with signal {} while running lookups", sig),
            case: serde_json::to_value(case).unwrap(),
        })),
        ChildOut::Exit { code, stderr_hint } => Err(Fail::Harness(format!("child exit {}: {}", code, stderr_hint))),
        ChildOut::Timeout => Err(Fail::Harness("child timed out".into())),
    }
}

fn run_lane(ctx: &Ctx, lr: &mut LaneResult) {
    let trees = ctx.tier.pick(2400, 24000);
    search(ctx, lr, "lookup", trees, strategy(24), &check);
}

fn replay(_ctx: &Ctx, _check: &str, case: &Value) -> Result<(), Fail> {
    let case: Case = serde_json::from_value(case.clone()).map_err(|e| Fail::Harness(format!("bad case: {}", e)))?;
    let mut s = Stats::default();
    check(&case, &mut s)
}

pub const PROP: Prop = Prop {
    id: "C01",
    level: "exploration",
    rule: "generated tree (<=14 nodes: dirs, files, fifos, chr, relative/absolute/dangling/looping/escaping/chained symlinks, hardlinks, odd names) x up to 24 lookups (resolve, resolve_nofollow, readlink, open_subpath with openat2-valid flag sets; Rust and C API) x resolver flags {none, NO_SYMLINKS} x kernel configs {openat2 present, openat2 -> ENOSYS via seccomp}; each library result is compared with the harness's own raw openat2(RESOLVE_IN_ROOT|RESOLVE_NO_MAGICLINKS) on the same unmodified tree (identity+type, link body, errno), checked for containment in the tree snapshot and for a bounded number of system calls. non-trivial = the kernel says the path crosses a symlink (RESOLVE_NO_SYMLINKS flips the result to ELOOP), or it contains '..', or it fails with something other than ENOENT; distinct by (tree hash, path, op, flags, kcfg, resolver flags, api)",
    assumptions: &[
        "the running kernel's openat2(RESOLVE_IN_ROOT) is the reference semantics",
        "openat2 absence is emulated by seccomp returning ENOSYS on the library's thread",
        "file systems: tmpfs (/dev/shm) only",
        "lookups needing more than 40 link traversals are outside the compared domain (kernel budget 40, emulated budget 128)",
    ],
    lanes: |_| 16,
    run_lane,
    replay,
    extra: None,
    exhaustive: false,
};
