//! C02 — lookups never escape the root under any attacker schedule.

use crate::attack::*;
use crate::driver::*;
use crate::exec::*;
use crate::gate::*;
use crate::gen::*;
use crate::ops::*;
use crate::props::c01::{lop_recipe, make_lookup, Lookup};
use crate::props::c11::judge_fds;
use crate::sandbox::*;
use crate::util::*;
use crate::workload::StepRec;
use proptest::collection::vec;
use proptest::prelude::*;
use serde::{Deserialize, Serialize};
use serde_json::{json, Value};
use std::sync::{Arc, Mutex};

#[derive(Clone, Debug, Serialize, Deserialize)]
pub struct Case {
    pub tree: TreeSpec,
    pub kcfg: Kcfg,
    pub no_symlinks: bool,
    pub lookup: Lookup,
    /// (placement selector, mutation); one entry + enumerate => all placements
    pub muts: Vec<(u16, MutRecipe)>,
    pub enumerate: bool,
    #[serde(default)]
    pub only_placement: Option<usize>,
    /// kernel back-end: the kernel notices a racing rename and answers EAGAIN to the
    /// next n openat2 calls after the (first) mutation was applied
    #[serde(default)]
    pub eagain_burst: u8,
}

/// Extra links whose bodies climb with '..' towards names that also exist
/// outside the root (decoys), placed below a directory of the tree.
fn add_traps(tree: &mut TreeSpec, traps: &[(u16, u8, u8)]) -> Vec<B> {
    let mut made = vec![];
    for (i, (dsel, name, body)) in traps.iter().enumerate() {
        let dirs: Vec<B> = tree.dirs().into_iter().filter(|d| !d.0.is_empty()).collect();
        if dirs.is_empty() {
            break;
        }
        let d = dirs[pick(*dsel, dirs.len())].clone();
        let x = ALPHA[(*name as usize) % ALPHA.len()];
        let y = ALPHA[(*name as usize / 5) % ALPHA.len()];
        let b = match body % 8 {
            0 => format!("../{}", x),
            1 => format!("../../{}", x),
            2 => format!("../{}/{}", x, y),
            3 => format!("../../{}/{}", x, y),
            4 => format!("{}/../../{}", x, y),
            5 => "..".to_string(),
            6 => format!("../../../{}", x),
            _ => format!("./../{}", x),
        };
        let p = d.join(format!("t{}", i).as_bytes());
        if tree.node(&p).is_none() {
            tree.entries.push((p.clone(), Node::Symlink { body: B::new(b) }));
            made.push(p);
        }
    }
    made
}

pub fn strategy() -> impl Strategy<Value = Case> {
    (
        tree_recipe(12),
        prop_oneof![2 => Just(Kcfg::NoMountApi), 4 => Just(Kcfg::NoOpenat2NoMountApi), 1 => Just(Kcfg::NoOpenat2)],
        prop_oneof![8 => Just(false), 1 => Just(true)],
        path_recipe(),
        lop_recipe(),
        prop_oneof![5 => Just(false), 1 => Just(true)],
        prop_oneof![
            3 => mut_recipe().prop_map(|m| (true, vec![(0u16, m)])),
            1 => vec((any::<u16>(), mut_recipe()), 2..=4).prop_map(|v| (false, v)),
        ],
        vec((any::<u16>(), any::<u8>(), any::<u8>()), 0..3),
        (any::<u16>(), 0u8..5, any::<u8>()),
        prop_oneof![3 => Just(0u8), 1 => Just(1u8), 2 => Just(16u8), 1 => Just(17u8), 1 => Just(33u8)],
    )
        .prop_map(|(tr, kcfg, no_symlinks, p, o, capi, (enumerate, muts), traps, (lsel, lmode, suffix), burst)| {
            let mut tree = build_tree(&tr);
            let made = add_traps(&mut tree, &traps);
            let mut op = make_lookup(&tree, &p, &o);
            // half of the lookups go straight through a link whose body climbs
            let climbing: Vec<B> = tree
                .entries
                .iter()
                .filter(|(_, n)| matches!(n, Node::Symlink { body } if body.0.windows(2).any(|w| w == b"..")))
                .map(|(p, _)| p.clone())
                .chain(made.into_iter())
                .collect();
            if lmode < 2 && !climbing.is_empty() {
                let mut path = climbing[pick(lsel, climbing.len())].clone();
                if lmode == 1 {
                    path = path.join(ALPHA[suffix as usize % ALPHA.len()].as_bytes());
                }
                op = match op {
                    Op::Resolve { .. } => Op::Resolve { path },
                    Op::ResolveNofollow { .. } => Op::Resolve { path },
                    Op::Readlink { .. } => Op::Readlink { path },
                    Op::Open { flags, .. } => Op::Open { path, flags },
                    o => o,
                };
            }
            // a lookup that leaves a top-level directory again through a physical '..',
            // while that directory is moved out of the root (to the stash or to the
            // sibling whose name reads "<root> (deleted)")
            let (mut muts, mut enumerate) = (muts, enumerate);
            let mut climb_burst: Option<u8> = None;
            if lmode == 4 {
                let tops: Vec<B> = tree.dirs().into_iter().filter(|d| !d.0.is_empty() && !d.0.contains(&b'/')).collect();
                if !tops.is_empty() {
                    let d = tops[pick(lsel, tops.len())].clone();
                    let mut path = d.join(b"..");
                    match suffix % 4 {
                        1 => path = path.join(ALPHA[suffix as usize / 4 % ALPHA.len()].as_bytes()),
                        // one or two more '..' than there are directories to leave
                        2 => path = path.join(b".."),
                        3 => path = d.join(ALPHA[suffix as usize / 4 % ALPHA.len()].as_bytes()).join(b"../../.."),
                        _ => {}
                    }
                    op = match op {
                        Op::Readlink { .. } => Op::ResolveNofollow { path },
                        Op::ResolveNofollow { .. } => Op::ResolveNofollow { path },
                        Op::Open { .. } => Op::Open { path, flags: libc::O_RDONLY | libc::O_DIRECTORY },
                        _ => Op::Resolve { path },
                    };
                    muts = vec![(0u16, MutRecipe { kind: MutKind::MoveOut, target: suffix as u16 * 257, parent: false, restore_after: if suffix & 8 == 8 { 1 } else { 0 } })];
                    enumerate = true;
                    climb_burst = Some(if suffix & 16 == 16 { 16 } else { 17 });
                }
            }
            let burst = match climb_burst {
                Some(b) if lsel & 1 == 1 => b,
                _ => burst,
            };
            Case { tree, kcfg, no_symlinks, lookup: Lookup { op, capi: capi && !no_symlinks }, muts, enumerate, only_placement: None, eagain_burst: if kcfg.has_openat2() { burst } else { 0 } }
        })
}

#[derive(Clone, Debug, Serialize, Deserialize)]
pub struct RunRec {
    /// index of this run in the case's schedule list (what only_placement names)
    #[serde(default)]
    pub k: usize,
    pub placements: Vec<usize>,
    pub mutations: Vec<Mutation>,
    pub out: Out,
    pub escaped: Option<String>,
    pub fd_problem: Option<String>,
    pub attack_log: Vec<String>,
    pub applied: u32,
    pub n_syscalls: usize,
}

#[derive(Clone, Debug, Serialize, Deserialize)]
pub struct Report {
    pub baseline: Out,
    pub baseline_syscalls: usize,
    pub placement_points: usize,
    pub touched: Vec<B>,
    pub has_dotdot_or_link_step: bool,
    pub runs: Vec<RunRec>,
    pub fatal: Option<String>,
    #[serde(default)]
    pub skipped_placements: usize,
}

struct AttackState {
    attacker: Attacker,
    /// idx -> mutations to apply before that syscall
    plan: Vec<(usize, Mutation)>,
    /// idx at which to undo the last mutation
    restore_at: Vec<usize>,
}

fn run_once(sb: &Sandbox, case: &Case, plan: Vec<(usize, Mutation)>, restore_at: Vec<usize>, observe_kinds: bool) -> (Out, Option<CallRec>, Option<String>, Option<String>, Vec<String>, u32, Snapshot, u64, Vec<(usize, Mutation)>) {
    sb.reset_root(&case.tree);
    let sandbox_dev = fstatat(libc::AT_FDCWD, sb.root().as_os_str().as_encoded_bytes(), true).map(|s| s.id.dev).unwrap_or(0);
    let root_snap = Snapshot::take_path(&sb.root());
    let state = Arc::new(Mutex::new(AttackState { attacker: Attacker::new(sb), plan: plan.clone(), restore_at }));
    let st2 = state.clone();
    let burst = case.eagain_burst as usize;
    let mut eagain_left: Option<usize> = None;
    let hook: Hook = Box::new(move |sys: &Sys, _c: &mut CallRec| {
        let mut st = st2.lock().unwrap();
        let idx = sys.idx;
        let todo: Vec<Mutation> = st.plan.iter().filter(|(i, _)| *i == idx).map(|(_, m)| m.clone()).collect();
        if st.restore_at.contains(&idx) {
            st.attacker.restore_last();
        }
        let applied_now = !todo.is_empty();
        for m in todo {
            st.attacker.apply(&m);
        }
        if applied_now && burst > 0 && eagain_left.is_none() {
            eagain_left = Some(burst);
        }
        if sys.name == "openat2" {
            if let Some(n) = eagain_left.as_mut() {
                if *n > 0 {
                    *n -= 1;
                    return Action::Errno(libc::EAGAIN);
                }
            }
        }
        Action::Continue
    });
    let policy = Policy { observe: true, kinds: observe_kinds, audit_fds: true, max_syscalls: 60_000, hook: Some(hook), ..Policy::default() };
    let rootpath = sb.root();
    let (out, call, rec) = with_session(case.kcfg, Some(policy), |s| {
        let ro = s.run(|_wg, st| match open_root(&rootpath, case.no_symlinks) {
            Ok(r) => {
                st.root = Some(r);
                None
            }
            Err(o) => Some(o),
        });
        if let Some(o) = ro {
            return (o, None, None);
        }
        // warm the library's lazies so that the traced call is the lookup alone
        s.run(|_wg, st| {
            let root = st.root.as_ref().unwrap();
            let _ = guarded(|| root.resolve(".")).map(|h| {
                let _ = guarded(|| h.reopen(pathrs::flags::OpenFlags::O_PATH));
            });
        });
        let (out, ret_fd, lent, lent_after) = s.run(|wg, st| {
            use std::os::unix::io::{AsFd, AsRawFd};
            let root = st.root.as_ref().unwrap();
            let rfd = root.as_fd().as_raw_fd();
            let lent: Vec<(i32, Ident)> = fstat(rfd).ok().map(|s| vec![(rfd, s.id)]).unwrap_or_default();
            wg.enter(1);
            let (out, fd) = exec_op(root, &case.lookup.op, case.lookup.capi);
            wg.exit();
            let lent_after: Vec<Option<Ident>> = lent.iter().map(|&(f, _)| fstat(f).ok().map(|s| s.id)).collect();
            let ret = fd.as_ref().map(|f| f.as_raw_fd());
            drop(fd);
            (out, ret, lent, lent_after)
        });
        let call = s.take_calls().into_iter().find(|c| c.id == 1);
        s.run(|_wg, st| st.root = None);
        let rec = StepRec { out: out.clone(), call: call.clone(), ret_fd, lent, lent_after };
        (out, call, Some(rec))
    });
    let mut st = state.lock().unwrap();
    st.attacker.note_inside();
    let escaped = match &out {
        Out::Fd(o) => {
            if st.attacker.inside.contains(&o.id()) {
                None
            } else {
                let whole = Snapshot::take_path(&sb.base);
                Some(format!("returned {} (dev {} ino {}) was never inside the root; in the sandbox it is {:?}", ftype_name(o.ftype), o.dev, o.ino, whole.label_of(o.id())))
            }
        }
        Out::Bytes(b) => {
            if st.attacker.inside_bodies.contains(b) {
                None
            } else {
                Some(format!("returned link body \"{}\" belongs to no link that was ever inside the root", b))
            }
        }
        _ => None,
    };
    let fd_problem = rec.as_ref().and_then(|r| {
        let mut tol = 0;
        judge_fds(r, &mut tol).err().map(|(rule, why)| format!("{}: {}", rule, why))
    });
    let log = st.attacker.log.clone();
    let applied = st.attacker.applied;
    drop(st);
    (out, call, escaped, fd_problem, log, applied, root_snap, sandbox_dev, plan)
}

pub fn child(case: &Case) -> Report {
    let sb = Sandbox::create("c02");
    // baseline: no attack, full observation
    let (bout, bcall, _, _, _, _, root_snap, sandbox_dev, _) = run_once(&sb, case, vec![], vec![], true);
    let trace = bcall.map(|c| c.trace).unwrap_or_default();
    let n = trace.len();
    let points: Vec<usize> = trace.iter().filter(|s| is_placement_point(s, sandbox_dev)).map(|s| s.idx).collect();
    let touched = touched_entries(&trace, &root_snap);
    let all: Vec<B> = case.tree.paths();
    let has_step = trace.iter().any(|s| s.name == "readlinkat" && s.dirfds.iter().any(|(_, k)| matches!(k, FdKind::Inode { .. }))) || trace.iter().any(|s| s.paths.iter().any(|p| p.0 == b"..")) || case.lookup.op.path().0.windows(2).any(|w| w == b"..");
    let mut rep = Report { baseline: bout, baseline_syscalls: n, placement_points: points.len(), touched: touched.clone(), has_dotdot_or_link_step: has_step, runs: vec![], fatal: None, skipped_placements: 0 };
    if points.is_empty() {
        sb.destroy();
        return rep;
    }
    let muts: Vec<Mutation> = case.muts.iter().map(|(_, r)| instantiate(r, &touched, &all)).collect();
    let mut schedules: Vec<(Vec<(usize, Mutation)>, Vec<usize>)> = vec![];
    if case.enumerate && muts.len() == 1 {
        for (pi, &i) in points.iter().enumerate() {
            let restore = case.muts[0].1.restore_after as usize;
            let r = if restore > 0 { points.get(pi + restore).map(|x| vec![*x]).unwrap_or_default() } else { vec![] };
            schedules.push((vec![(i, muts[0].clone())], r));
        }
    } else {
        let mut plan = vec![];
        let mut restores = vec![];
        for ((sel, r), m) in case.muts.iter().zip(muts.iter()) {
            let pi = pick(*sel, points.len());
            plan.push((points[pi], m.clone()));
            if r.restore_after > 0 {
                if let Some(x) = points.get(pi + r.restore_after as usize) {
                    restores.push(*x);
                }
            }
        }
        schedules.push((plan, restores));
    }
    // bounded work per case: a lookup with thousands of syscalls (giant paths) has
    // thousands of placement points; keep an evenly spaced sample of 200 of them, and
    // stop after 45 s (runs that were made are judged, the rest is counted as skipped)
    const MAX_PLACEMENTS: usize = 200;
    let total = schedules.len();
    let keep: Vec<bool> = (0..total).map(|k| total <= MAX_PLACEMENTS || (k * MAX_PLACEMENTS / total) != ((k + 1) * MAX_PLACEMENTS / total) || k < 20).collect();
    let t0 = now_s();
    for (k, (plan, restores)) in schedules.into_iter().enumerate() {
        if case.only_placement.is_none() && (!keep[k] || now_s() - t0 > 45.0) {
            rep.skipped_placements += 1;
            continue;
        }
        if let Some(only) = case.only_placement {
            if only != k {
                continue;
            }
        }
        let (out, call, escaped, fd_problem, log, applied, _, _, plan) = run_once(&sb, case, plan, restores, false);
        rep.runs.push(RunRec {
            k,
            placements: plan.iter().map(|(i, _)| *i).collect(),
            mutations: plan.iter().map(|(_, m)| m.clone()).collect(),
            out,
            escaped,
            fd_problem,
            attack_log: log,
            applied,
            n_syscalls: call.map(|c| c.n_syscalls).unwrap_or(0),
        });
    }
    sb.destroy();
    rep
}

fn backend(k: Kcfg) -> &'static str {
    if k.has_openat2() {
        "kernel"
    } else {
        "emulated"
    }
}

pub fn judge(case: &Case, rep: &Report, stats: &mut Stats) -> Result<(), Fail> {
    if let Some(f) = &rep.fatal {
        return Err(Fail::Harness(f.clone()));
    }
    stats.count("cases", 1);
    stats.class(&format!("backend:{}", backend(case.kcfg)));
    if case.eagain_burst > 0 {
        stats.class(&format!("kernel-answers-EAGAIN-x{}", case.eagain_burst));
    }
    stats.class(&format!("baseline:{}", rep.baseline.class()));
    stats.count("placement_points_total", rep.placement_points as u64);
    stats.count("placements_skipped_by_work_bound", rep.skipped_placements as u64);
    for r in rep.runs.iter() {
        let k = r.k;
        stats.eval();
        stats.class(&format!("attacked-outcome:{}", r.out.class()));
        for m in &r.mutations {
            stats.class(&format!("mutation:{:?}", m.kind).split('(').next().unwrap_or("mutation"));
        }
        let nontrivial = r.applied > 0 && rep.has_dotdot_or_link_step;
        if nontrivial {
            stats.nontrivial_key(&format!("{}|{:?}|{:?}|{:?}|{:?}", case.tree.hash(), case.lookup, case.kcfg, r.placements, r.mutations));
            stats.sample(|| json!({"lookup": case.lookup.op.brief(), "backend": backend(case.kcfg), "placements": r.placements, "of_syscalls": rep.baseline_syscalls, "mutations": r.mutations, "attack_log": r.attack_log, "baseline": rep.baseline.brief(), "attacked": r.out.brief()}));
            if r.out.class() != rep.baseline.class() {
                stats.class("attack-changed-outcome");
            }
        }
        let mk = |sig: String, msg: String| -> Fail {
            let mut single = case.clone();
            single.only_placement = Some(k);
            Fail::Violation(Violation {
                check: "attack".into(),
                signature: sig,
                message: format!(
                    "{} via {} backend, attacked before syscall(s) {:?} of {} with {:?}\n  attacker: {:?}\n  result: {}\n  {}",
                    case.lookup.op.brief(),
                    backend(case.kcfg),
                    r.placements,
                    rep.baseline_syscalls,
                    r.mutations,
                    r.attack_log,
                    r.out.brief(),
                    msg
                ),
                case: serde_json::to_value(&single).unwrap(),
            })
        };
        if let Out::Panicked(m) = &r.out {
            return Err(mk(format!("panic:{}:{}", case.lookup.op.name(), backend(case.kcfg)), format!("library panicked: {}", m)));
        }
        if let Some(e) = &r.escaped {
            return Err(mk(format!("escape:{}:{}", case.lookup.op.name(), backend(case.kcfg)), e.clone()));
        }
        if let Some(p) = &r.fd_problem {
            return Err(mk(format!("fdtable:{}:{}", case.lookup.op.name(), backend(case.kcfg)), p.clone()));
        }
    }
    Ok(())
}

pub fn check(case: &Case, stats: &mut Stats) -> Result<(), Fail> {
    match run_in_child(300.0, || child(case)) {
        ChildOut::Ok(rep) => judge(case, &rep, stats),
        ChildOut::Crashed { sig } => Err(Fail::Violation(Violation {
            check: "attack".into(),
            signature: format!("crash:sig{}", sig),
            message: format!("child died with signal {} during an attacked lookup", sig),
            case: serde_json::to_value(case).unwrap(),
        })),
        ChildOut::Exit { code, stderr_hint } => Err(Fail::Harness(format!("child exit {}: {}", code, stderr_hint))),
        ChildOut::Timeout => Err(Fail::Harness("child timed out".into())),
    }
}

fn run_lane(ctx: &Ctx, lr: &mut LaneResult) {
    let n = ctx.tier.pick(480, 4800);
    search(ctx, lr, "attack", n, strategy(), &check);
}

fn replay(_ctx: &Ctx, _check: &str, case: &Value) -> Result<(), Fail> {
    let case: Case = serde_json::from_value(case.clone()).map_err(|e| Fail::Harness(format!("bad case: {}", e)))?;
    let mut s = Stats::default();
    check(&case, &mut s)
}

pub const PROP: Prop = Prop {
    id: "C02",
    level: "exploration",
    rule: "generated tree x lookup (resolve, resolve_nofollow, readlink, open_subpath; Rust and C API) x backend x attacker schedule (on the kernel back-end optionally followed by the kernel answering EAGAIN to the next 1 / 16 / 17 / 33 openat2 calls, as it does when it notices the race). The lookup is first traced without attack; the mutation targets are drawn from the entries the lookup touched by name (and their parents); for a single mutation EVERY placement point of the trace (each syscall about to act on a tree inode or to read a descriptor's kernel path) is enumerated, one run per placement on a freshly built tree, optionally with a flip-flop restore k points later; multi-mutation schedules (2-4) are sampled. Mutations: move out of the root, RENAME_EXCHANGE with a fresh directory / a symlink to an outside directory or file / a symlink to '..'-chains / a file, replace by a link to the outside, remove, swap with a sibling, rename the root. The supervisor applies them while the library thread is parked, and unions the root's snapshot before and after every mutation into the ever-inside set. Oracle: a returned descriptor's (dev,ino) is in the ever-inside set; a returned link body is the body of an ever-inside link; no panic; descriptor table intact. evaluations = attacked runs; non-trivial = a mutation was applied and the lookup has a '..' or link step; distinct by (tree, lookup, kcfg, placements, mutations)",
    assumptions: &[
        "pre-emption granularity is the library's own system calls; races inside a single openat2 are only covered by the thorough-tier stress run",
        "placement points are the syscalls touching tree inodes or fd magic-links; descriptor-local calls (close, fcntl, fstatfs) commute with tree mutations",
    ],
    lanes: |_| 16,
    run_lane,
    replay,
    extra: None,
    exhaustive: false,
};
