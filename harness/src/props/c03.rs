//! C03 — mutating Root operations never touch anything outside the root.

use crate::attack::*;
use crate::driver::*;
use crate::exec::*;
use crate::gate::*;
use crate::gen::*;
use crate::ops::*;
use crate::props::c11::judge_fds;
use crate::sandbox::*;
use crate::util::*;
use crate::workload::StepRec;
use proptest::collection::vec;
use proptest::prelude::*;
use serde::{Deserialize, Serialize};
use serde_json::{json, Value};
use std::collections::BTreeSet;
use std::sync::{Arc, Mutex};

#[derive(Clone, Debug, Serialize, Deserialize)]
pub struct Case {
    pub tree: TreeSpec,
    pub kcfg: Kcfg,
    pub no_symlinks: bool,
    pub op: Op,
    pub capi: bool,
    pub muts: Vec<(u16, MutRecipe)>,
    pub enumerate: bool,
    #[serde(default)]
    pub only_placement: Option<usize>,
    /// evenly spaced sample of at most this many placements (default 200)
    #[serde(default)]
    pub placement_cap: Option<usize>,
}

pub fn strategy(with_attacker: bool) -> impl Strategy<Value = Case> {
    (
        tree_recipe(12),
        prop_oneof![2 => Just(Kcfg::NoMountApi), 3 => Just(Kcfg::NoOpenat2NoMountApi), 1 => Just(Kcfg::NoOpenat2), 1 => Just(Kcfg::Full)],
        prop_oneof![8 => Just(false), 1 => Just(true)],
        mutating_op_recipe(),
        prop_oneof![4 => Just(false), 1 => Just(true)],
        prop_oneof![
            3 => mut_recipe().prop_map(|m| (true, vec![(0u16, m)])),
            1 => vec((any::<u16>(), mut_recipe()), 2..=3).prop_map(|v| (false, v)),
        ],
    )
        .prop_map(move |(tr, kcfg, no_symlinks, o, capi, (enumerate, muts))| {
            let tree = build_tree(&tr);
            let op = build_op(&tree, &o);
            Case { tree, kcfg, no_symlinks, capi: capi && !no_symlinks && !op.has_nul(), op, muts: if with_attacker { muts } else { vec![] }, enumerate, only_placement: None, placement_cap: None }
        })
}

/// remove_all of a directory that has non-empty sub-directories, while the attacker
/// replaces one of the entries the recursion touches (mostly by links that leave the
/// root): the recursion must not follow what was swapped in.
pub fn recursive_strategy() -> impl Strategy<Value = Case> {
    (
        tree_recipe(6),
        prop_oneof![2 => Just(Kcfg::NoMountApi), 3 => Just(Kcfg::NoOpenat2NoMountApi), 1 => Just(Kcfg::Full)],
        (any::<u16>(), 0u8..12, 1u8..5, any::<u8>()),
        prop_oneof![4 => Just(false), 1 => Just(true)],
        prop_oneof![4 => Just(MutKind::ExchangeLinkOutsideDir), 2 => Just(MutKind::ReplaceByLinkOutside), 2 => (0u8..3).prop_map(MutKind::ExchangeLinkDotdot), 1 => Just(MutKind::ExchangeDir), 1 => Just(MutKind::MoveOut), 1 => Just(MutKind::ExchangeLinkOutsideFile)],
        any::<u16>(),
        0u8..3,
    )
        .prop_map(|(tr, kcfg, (at, width, depth, name), capi, kind, target, restore_after)| {
            let mut tree = build_tree(&tr);
            let top = crate::props::c13::add_bulk(&mut tree, at, width, depth, name);
            let op = Op::RemoveAll { path: top };
            Case { tree, kcfg, no_symlinks: false, capi, op, muts: vec![(0u16, MutRecipe { kind, target, parent: false, restore_after })], enumerate: true, only_placement: None, placement_cap: Some(48) }
        })
}

/// Operations built on *partial* lookups (mkdir_all) and on parent lookups, with a path
/// that climbs back through '..' past existing directories before it names what is to
/// be created, while the attacker moves or exchanges one of those directories; with and
/// without NO_SYMLINKS (which changes what the resolver re-checks after '..').
pub fn climbing_strategy() -> impl Strategy<Value = Case> {
    (
        tree_recipe(5),
        prop_oneof![1 => Just(Kcfg::NoMountApi), 4 => Just(Kcfg::NoOpenat2NoMountApi), 1 => Just(Kcfg::NoOpenat2)],
        any::<bool>(),
        (0u8..6, 0u8..4, any::<bool>()),
        prop_oneof![4 => Just(MutKind::MoveOut), 2 => Just(MutKind::ExchangeDir), 1 => (0u8..3).prop_map(MutKind::ExchangeLinkDotdot), 1 => Just(MutKind::ExchangeLinkOutsideDir), 1 => Just(MutKind::Remove)],
        any::<u16>(),
        0u8..3,
    )
        .prop_map(|(tr, kcfg, no_symlinks, (shape, opk, capi), kind, target, restore_after)| {
            let mut tree = build_tree(&tr);
            for d in ["p", "p/q", "p/q/r"] {
                if tree.node(&B::new(d)).is_none() {
                    tree.entries.push((B::new(d), Node::Dir { mode: 0o755 }));
                }
            }
            let path = B::new(match shape {
                0 => "p/q/../../pwn/d",
                1 => "p/q/../pwn",
                2 => "p/q/r/../../../pwn/x/y",
                3 => "p/../pwn/d",
                4 => "p/q/../../p/q/../../pwn",
                _ => "p/q/r/../../new0/new1",
            });
            let op = match opk {
                0 | 1 => Op::MkdirAll { path, mode: 0o755 },
                2 => Op::Mkdir { path, mode: 0o755 },
                _ => Op::CreateFile { path, flags: libc::O_RDWR | libc::O_EXCL, mode: 0o600 },
            };
            // the C API has no resolver flags
            let capi = capi && !no_symlinks;
            Case { tree, kcfg, no_symlinks, capi, op, muts: vec![(0u16, MutRecipe { kind, target, parent: false, restore_after })], enumerate: true, only_placement: None, placement_cap: Some(64) }
        })
}

#[derive(Clone, Debug, Serialize, Deserialize)]
pub struct RunRec {
    /// index of this run in the case's schedule list (what only_placement names)
    #[serde(default)]
    pub k: usize,
    pub placements: Vec<usize>,
    pub mutations: Vec<Mutation>,
    pub out: Out,
    pub frame: Vec<String>,
    pub fd_outside: Option<String>,
    pub fd_problem: Option<String>,
    pub attack_log: Vec<String>,
    pub applied: u32,
    pub changed_inside: usize,
}

#[derive(Clone, Debug, Serialize, Deserialize)]
pub struct Report {
    pub baseline: RunRec,
    pub baseline_syscalls: usize,
    pub placement_points: usize,
    pub runs: Vec<RunRec>,
    #[serde(default)]
    pub skipped_placements: usize,
}

struct AttackState {
    attacker: Attacker,
    plan: Vec<(usize, Mutation)>,
    restore_at: Vec<usize>,
}

/// Frame condition: nothing whose parent directory was never inside changed.
pub fn frame_violations(before: &Snapshot, after: &Snapshot, ever_inside: &BTreeSet<Ident>) -> Vec<String> {
    let mut v = vec![];
    let attacker_made = |p: &B| -> bool {
        let s = String::from_utf8_lossy(&p.0).to_string();
        if s == "root.moved" || s.starts_with("root.moved/") {
            return true;
        }
        if let Some(rest) = s.strip_prefix("stash/") {
            let first = rest.split('/').next().unwrap_or("");
            return is_attacker_name(first);
        }
        false
    };
    // every object that was never inside is still there, unchanged
    for (p, e) in &before.map {
        if ever_inside.contains(&e.id()) || p.0.is_empty() {
            continue;
        }
        // its parent must be an outside directory too for the path to be stable
        let (par, _) = split_parent(p);
        let par_outside = before.map.get(&par).map(|pe| !ever_inside.contains(&pe.id())).unwrap_or(true);
        if !par_outside {
            continue;
        }
        match after.map.get(p) {
            None => v.push(format!("outside entry removed: {}", p)),
            Some(f) => {
                if f.id() != e.id() {
                    v.push(format!("outside entry replaced: {} ({} -> {})", p, e.proj(), f.proj()));
                } else if f.proj() != e.proj() {
                    v.push(format!("outside object modified: {} ({} -> {})", p, e.proj(), f.proj()));
                }
            }
        }
    }
    // nothing new appeared in a directory that was never inside
    let before_ids = before.idents();
    for (p, e) in &after.map {
        if before.map.contains_key(p) || p.0.is_empty() || attacker_made(p) {
            continue;
        }
        if ever_inside.contains(&e.id()) {
            // an ever-inside object that shows up next to outside things was moved there by the attacker
            continue;
        }
        // walk up through objects created during the call to the first pre-existing directory
        let mut cur = split_parent(p).0;
        loop {
            let ce = match after.map.get(&cur) {
                Some(x) => x,
                None => break,
            };
            if ever_inside.contains(&ce.id()) {
                break;
            }
            if before_ids.contains(&ce.id()) || cur.0.is_empty() {
                v.push(format!("new entry in a directory that was never inside the root: {} ({}) [in {}]", p, e.proj(), if cur.0.is_empty() { "the root's parent".to_string() } else { cur.to_string() }));
                break;
            }
            cur = split_parent(&cur).0;
        }
    }
    v
}

fn run_once(sb: &Sandbox, case: &Case, plan: Vec<(usize, Mutation)>, restore_at: Vec<usize>, observe_kinds: bool) -> (RunRec, Option<CallRec>, Snapshot, u64) {
    sb.reset_root(&case.tree);
    let sandbox_dev = fstatat(libc::AT_FDCWD, sb.root().as_os_str().as_encoded_bytes(), true).map(|s| s.id.dev).unwrap_or(0);
    let before = Snapshot::take_path_light(&sb.base, &B::new("root"));
    let root_snap = before.sub(&B::new("root"));
    // labels relative to the root for touched_entries
    let root_rel = Snapshot { map: root_snap.map.iter().map(|(p, e)| (B(p.0.strip_prefix(b"root").map(|r| r.strip_prefix(b"/").unwrap_or(r)).unwrap_or(&p.0).to_vec()), e.clone())).collect() };
    let state = Arc::new(Mutex::new(AttackState { attacker: Attacker::new(sb), plan: plan.clone(), restore_at }));
    let st2 = state.clone();
    let hook: Hook = Box::new(move |sys: &Sys, _c: &mut CallRec| {
        let mut st = st2.lock().unwrap();
        let idx = sys.idx;
        let todo: Vec<Mutation> = st.plan.iter().filter(|(i, _)| *i == idx).map(|(_, m)| m.clone()).collect();
        if st.restore_at.contains(&idx) {
            st.attacker.restore_last();
        }
        for m in todo {
            st.attacker.apply(&m);
        }
        Action::Continue
    });
    let policy = Policy { observe: true, kinds: observe_kinds, audit_fds: true, max_syscalls: 100_000, hook: Some(hook), ..Policy::default() };
    let rootpath = sb.root();
    let (out, call, rec, fd_obj) = with_session(case.kcfg, Some(policy), |s| {
        let ro = s.run(|_wg, st| match open_root(&rootpath, case.no_symlinks) {
            Ok(r) => {
                st.root = Some(r);
                None
            }
            Err(o) => Some(o),
        });
        if let Some(o) = ro {
            return (o, None, None, None);
        }
        s.run(|_wg, st| {
            let root = st.root.as_ref().unwrap();
            let _ = guarded(|| root.resolve(".")).map(|h| {
                let _ = guarded(|| h.reopen(pathrs::flags::OpenFlags::O_PATH));
            });
        });
        let (out, ret_fd, lent, lent_after, obj) = s.run(|wg, st| {
            use std::os::unix::io::{AsFd, AsRawFd};
            let root = st.root.as_ref().unwrap();
            let rfd = root.as_fd().as_raw_fd();
            let lent: Vec<(i32, Ident)> = fstat(rfd).ok().map(|s| vec![(rfd, s.id)]).unwrap_or_default();
            wg.enter(1);
            let (out, fd) = exec_op(root, &case.op, case.capi);
            wg.exit();
            let lent_after: Vec<Option<Ident>> = lent.iter().map(|&(f, _)| fstat(f).ok().map(|s| s.id)).collect();
            let ret = fd.as_ref().map(|f| f.as_raw_fd());
            let obj = match &out {
                Out::Fd(o) => Some(o.clone()),
                _ => None,
            };
            drop(fd);
            (out, ret, lent, lent_after, obj)
        });
        let call = s.take_calls().into_iter().find(|c| c.id == 1);
        s.run(|_wg, st| st.root = None);
        let rec = StepRec { out: out.clone(), call: call.clone(), ret_fd, lent, lent_after };
        (out, call, Some(rec), obj)
    });
    let mut st = state.lock().unwrap();
    st.attacker.note_inside();
    let after = Snapshot::take_path_light(&sb.base, &B::new("root"));
    let ever = st.attacker.inside.clone();
    let frame = frame_violations(&before, &after, &ever);
    let before_ids = before.idents();
    let fd_outside = fd_obj.and_then(|o| {
        if ever.contains(&o.id()) {
            return None;
        }
        let mut label = match after.label_of(o.id()) {
            Some(l) => l,
            None => return None,
        };
        let first = label.clone();
        // objects created during the call are judged by the first pre-existing
        // directory above them: it must have been inside the root at some time
        loop {
            let e = match after.map.get(&label) {
                Some(e) => e,
                None => return None,
            };
            if ever.contains(&e.id()) {
                return None;
            }
            if before_ids.contains(&e.id()) || label.0.is_empty() {
                return Some(format!("returned descriptor refers to \"{}\" (sandbox-relative; \"\" is the root's parent), which lies in \"{}\": a directory that was never inside the root", first, label));
            }
            label = split_parent(&label).0;
        }
    });
    let fd_problem = rec.as_ref().and_then(|r| {
        let mut tol = 0;
        judge_fds(r, &mut tol).err().map(|(rule, why)| format!("{}: {}", rule, why))
    });
    let changed_inside = changes(&before.sub(&B::new("root")), &after.sub(&B::new("root"))).len();
    let rr = RunRec {
        k: 0,
        placements: plan.iter().map(|(i, _)| *i).collect(),
        mutations: plan.iter().map(|(_, m)| m.clone()).collect(),
        out,
        frame,
        fd_outside,
        fd_problem,
        attack_log: st.attacker.log.clone(),
        applied: st.attacker.applied,
        changed_inside,
    };
    (rr, call, root_rel, sandbox_dev)
}

pub fn child(case: &Case) -> Report {
    let sb = Sandbox::create("c03");
    let (base, bcall, root_rel, sandbox_dev) = run_once(&sb, case, vec![], vec![], true);
    let trace = bcall.map(|c| c.trace).unwrap_or_default();
    let n = trace.len();
    let points: Vec<usize> = trace.iter().filter(|s| is_placement_point(s, sandbox_dev)).map(|s| s.idx).collect();
    let mut rep = Report { baseline: base, baseline_syscalls: n, placement_points: points.len(), runs: vec![], skipped_placements: 0 };
    if points.is_empty() || case.muts.is_empty() {
        sb.destroy();
        return rep;
    }
    let touched = touched_entries(&trace, &root_rel);
    let all: Vec<B> = case.tree.paths();
    let muts: Vec<Mutation> = case.muts.iter().map(|(_, r)| instantiate(r, &touched, &all)).collect();
    let mut schedules: Vec<(Vec<(usize, Mutation)>, Vec<usize>)> = vec![];
    if case.enumerate && muts.len() == 1 {
        for (pi, &i) in points.iter().enumerate() {
            let restore = case.muts[0].1.restore_after as usize;
            let r = if restore > 0 { points.get(pi + restore).map(|x| vec![*x]).unwrap_or_default() } else { vec![] };
            schedules.push((vec![(i, muts[0].clone())], r));
        }
    } else {
        let mut plan = vec![];
        let mut restores = vec![];
        for ((sel, r), m) in case.muts.iter().zip(muts.iter()) {
            let pi = pick(*sel, points.len());
            plan.push((points[pi], m.clone()));
            if r.restore_after > 0 {
                if let Some(x) = points.get(pi + r.restore_after as usize) {
                    restores.push(*x);
                }
            }
        }
        schedules.push((plan, restores));
    }
    // bounded work per case (see C02): an evenly spaced sample of at most 200 placements, 45 s
    let MAX_PLACEMENTS: usize = case.placement_cap.unwrap_or(200);
    let total = schedules.len();
    let keep: Vec<bool> = (0..total).map(|k| total <= MAX_PLACEMENTS || (k * MAX_PLACEMENTS / total) != ((k + 1) * MAX_PLACEMENTS / total) || k < MAX_PLACEMENTS / 10).collect();
    let t0 = now_s();
    for (k, (plan, restores)) in schedules.into_iter().enumerate() {
        if case.only_placement.is_none() && (!keep[k] || now_s() - t0 > 45.0) {
            rep.skipped_placements += 1;
            continue;
        }
        if let Some(only) = case.only_placement {
            if only != k {
                continue;
            }
        }
        let (mut rr, _, _, _) = run_once(&sb, case, plan, restores, false);
        rr.k = k;
        rep.runs.push(rr);
    }
    sb.destroy();
    rep
}

fn backend(k: Kcfg) -> &'static str {
    if k.has_openat2() {
        "kernel"
    } else {
        "emulated"
    }
}

fn arg_class(op: &Op) -> Vec<&'static str> {
    let mut v = vec![];
    for p in op.paths() {
        let comps: Vec<&[u8]> = p.0.split(|&c| c == b'/').collect();
        let last = comps.iter().rev().find(|c| !c.is_empty()).copied().unwrap_or(b"");
        if last == b".." {
            v.push("final-dotdot");
        }
        if last == b"." {
            v.push("final-dot");
        }
        if p.0.starts_with(b"/") {
            v.push("absolute");
        }
        // lexical escape
        let mut depth: i32 = 0;
        let mut escaped = false;
        for c in &comps {
            match *c {
                b"" | b"." => {}
                b".." => {
                    depth -= 1;
                    if depth < 0 {
                        escaped = true;
                        depth = 0;
                    }
                }
                _ => depth += 1,
            }
        }
        if escaped {
            v.push("lexically-leaves-root");
        }
        if p.0.ends_with(b"/") {
            v.push("trailing-slash");
        }
    }
    v
}

pub fn judge(case: &Case, rep: &Report, stats: &mut Stats) -> Result<(), Fail> {
    stats.count("cases", 1);
    stats.class(&format!("backend:{}", backend(case.kcfg)));
    stats.class(&format!("op:{}", case.op.name()));
    let classes = arg_class(&case.op);
    let escaping_links = case.tree.entries.iter().any(|(_, n)| matches!(n, Node::Symlink { body } if body.0.starts_with(b"..") || body.0.starts_with(OUT_TOKEN) || body.0.starts_with(b"/..")));
    stats.count("placements_skipped_by_work_bound", rep.skipped_placements as u64);
    let all_runs: Vec<(Option<usize>, &RunRec)> = std::iter::once((None, &rep.baseline)).chain(rep.runs.iter().map(|r| (Some(r.k), r))).collect();
    for (k, r) in all_runs {
        stats.eval();
        stats.class(&format!("outcome:{}", r.out.class()));
        if r.changed_inside > 0 {
            stats.class("changed-the-tree");
        }
        for c in &classes {
            stats.class(&format!("arg:{}", c));
        }
        let nontrivial = !classes.is_empty() || escaping_links || r.applied > 0;
        if nontrivial {
            stats.nontrivial_key(&format!("{}|{:?}|{:?}|{:?}|{:?}|{}", case.tree.hash(), case.op, case.kcfg, r.placements, r.mutations, case.capi));
            stats.sample(|| json!({"op": case.op.brief(), "backend": backend(case.kcfg), "placements": r.placements, "mutations": r.mutations, "attack_log": r.attack_log, "outcome": r.out.brief(), "tree_entries_changed": r.changed_inside}));
            stats.class_sample(&format!("{}:{}", case.op.name(), r.out.class()), || json!({"op": case.op.brief(), "outcome": r.out.brief(), "mutations": r.mutations}));
        }
        let mk = |sig: String, msg: String| -> Fail {
            let mut single = case.clone();
            single.only_placement = k;
            if k.is_none() {
                single.muts = vec![];
            }
            Fail::Violation(Violation {
                check: "frame".into(),
                signature: sig,
                message: format!(
                    "{}{} via {} backend{}\n  attacked before syscall(s) {:?} with {:?}\n  attacker: {:?}\n  result: {}\n  {}",
                    case.op.brief(),
                    if case.capi { " [C]" } else { "" },
                    backend(case.kcfg),
                    if case.no_symlinks { " NO_SYMLINKS" } else { "" },
                    r.placements,
                    r.mutations,
                    r.attack_log,
                    r.out.brief(),
                    msg
                ),
                case: serde_json::to_value(&single).unwrap(),
            })
        };
        let argsig = classes.first().copied().unwrap_or("plain");
        let attacked = if r.applied > 0 { "attacked" } else { "quiet" };
        if let Out::Panicked(m) = &r.out {
            return Err(mk(format!("panic:{}", case.op.name()), format!("library panicked: {}", m)));
        }
        if !r.frame.is_empty() {
            return Err(mk(format!("outside-touched:{}:{}:{}", case.op.name(), argsig, attacked), r.frame.iter().take(12).cloned().collect::<Vec<_>>().join("\n  ")));
        }
        if let Some(f) = &r.fd_outside {
            return Err(mk(format!("fd-outside:{}:{}:{}", case.op.name(), argsig, attacked), f.clone()));
        }
        if let Some(p) = &r.fd_problem {
            return Err(mk(format!("fdtable:{}", case.op.name()), p.clone()));
        }
    }
    Ok(())
}

pub fn check(case: &Case, stats: &mut Stats) -> Result<(), Fail> {
    match run_in_child(180.0, || child(case)) {
        ChildOut::Ok(rep) => judge(case, &rep, stats),
        ChildOut::Crashed { sig } => Err(Fail::Harness(format!("child died with signal {} (deep recursion on generated trees is not a C03 matter)", sig))),
        ChildOut::Exit { code, stderr_hint } => Err(Fail::Harness(format!("child exit {}: {}", code, stderr_hint))),
        ChildOut::Timeout => Err(Fail::Harness("child timed out".into())),
    }
}

fn run_lane(ctx: &Ctx, lr: &mut LaneResult) {
    search(ctx, lr, "frame-quiet", ctx.tier.pick(4000, 40000), strategy(false), &check);
    if lr.violations.is_empty() {
        search(ctx, lr, "frame-attacked", ctx.tier.pick(560, 5600), strategy(true), &check);
    }
    if lr.violations.is_empty() {
        search_opts(ctx, lr, "frame-attacked-climbing", ctx.tier.pick(320, 4800), climbing_strategy(), &check, 12);
    }
    if lr.violations.is_empty() {
        search_opts(ctx, lr, "frame-attacked-recursive", ctx.tier.pick(128, 1920), recursive_strategy(), &check, 12);
    }
}

fn replay(_ctx: &Ctx, _check: &str, case: &Value) -> Result<(), Fail> {
    let case: Case = serde_json::from_value(case.clone()).map_err(|e| Fail::Harness(format!("bad case: {}", e)))?;
    let mut s = Stats::default();
    check(&case, &mut s)
}

pub const PROP: Prop = Prop {
    id: "C03",
    level: "exploration",
    rule: "generated tree x one mutating operation (create of every inode kind incl. symlink and hardlink, create_file with flag sets incl. O_PATH, mkdir_all, remove_file, remove_dir, remove_all, rename with flags; Rust and C API) with argument paths weighted towards final '..'/'.', only-'..', absolute, through links that leave the root, trailing slashes x backend x attacker schedule (none; or one mutation at EVERY placement point of the operation's own syscall trace; or 2-3 sampled placements; targets = names the operation touches, existing or about to be created); plus two directed drivers: mkdir_all / mkdir / create_file with a path that climbs back through '..' past existing directories before naming what is created (with and without NO_SYMLINKS) while one of those directories is moved out, exchanged or removed at every placement point; and remove_all of a generated wide/deep directory while one of the entries its recursion touches is exchanged for a link leaving the root / a foreign directory / moved out, at every placement point (sample of 200 when there are more). Oracle (frame condition over the whole sandbox, which contains the root's parent, sibling directories with the same names, a stash and an 'outside' tree): every object that was never inside the root is still at its path with the same identity, type, mode, owner, size, content hash and link body; no new entry appears in a directory that was never inside (attacker's own logged objects excepted); a returned descriptor refers to an object that is, or whose parent is, ever-inside; descriptor table intact; no panic. evaluations = operation runs; non-trivial = argument lexically leaves the root / ends in '.' or '..' / is absolute, or the tree has links leaving the root, or an attacker mutation was applied; distinct by (tree, op, kcfg, placements, mutations, api)",
    assumptions: &["link counts and time stamps are not compared (unlinking an inside name of a hard-linked inode legitimately changes them)", "pre-emption granularity is the library's own system calls"],
    lanes: |_| 16,
    run_lane,
    replay,
    extra: None,
    exhaustive: false,
};
