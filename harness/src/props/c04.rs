//! C04 — kernel and emulated resolver back-ends are observationally equivalent.

use crate::driver::*;
use crate::exec::*;
use crate::gate::*;
use crate::gen::*;
use crate::ops::*;
use crate::sandbox::*;
use crate::util::*;
use proptest::collection::vec;
use proptest::prelude::*;
use serde::{Deserialize, Serialize};
use serde_json::{json, Value};
use std::collections::BTreeMap;
use std::os::unix::io::AsRawFd;

#[derive(Clone, Debug, Serialize, Deserialize)]
pub struct Case {
    pub tree: TreeSpec,
    pub no_symlinks: bool,
    pub umask: u32,
    /// whether the library may use fsopen/open_tree for its private procfs.
    /// Mostly off: every such mount bumps the global mount seqlock and makes
    /// openat2 in the other lanes fail spuriously (EAGAIN, ELOOP budget).
    #[serde(default)]
    pub mount_api: bool,
    pub steps: Vec<Op>,
}

pub fn inject_nul(op: &Op, pos: u16) -> Op {
    let mut v = serde_json::to_value(op).unwrap();
    // insert a NUL into the (first) path of the op
    if let Some(obj) = v.as_object_mut() {
        for (_, inner) in obj.iter_mut() {
            if let Some(m) = inner.as_object_mut() {
                let key = if m.contains_key("path") { "path" } else { "src" };
                if let Some(Value::String(s)) = m.get(key) {
                    let mut b = unesc(s);
                    let at = pick(pos, b.len() + 1);
                    b.insert(at, 0);
                    m.insert(key.to_string(), Value::String(esc(&b)));
                }
            }
        }
    }
    serde_json::from_value(v).unwrap()
}

pub fn strategy() -> impl Strategy<Value = Case> {
    (
        tree_recipe(14),
        prop_oneof![3 => Just(false), 1 => Just(true)],
        prop_oneof![3 => Just(0o022u32), 1 => Just(0o077u32), 1 => Just(0u32)],
        vec((op_recipe(), prop_oneof![24 => Just(None), 1 => any::<u16>().prop_map(Some)]), 1..=6),
        prop_oneof![7 => Just(false), 1 => Just(true)],
    )
        .prop_map(|(tr, no_symlinks, umask, ops, mount_api)| {
            let tree = build_tree(&tr);
            let steps = ops
                .iter()
                .map(|(o, nul)| {
                    let op = build_op(&tree, o);
                    match nul {
                        Some(p) => inject_nul(&op, *p),
                        None => op,
                    }
                })
                .collect();
            Case { tree, no_symlinks, umask, mount_api, steps }
        })
}

pub const GETFL_MASK: i32 = libc::O_ACCMODE | libc::O_APPEND | libc::O_NONBLOCK | libc::O_DIRECT | libc::O_SYNC | libc::O_DSYNC | libc::O_NOATIME | libc::O_DIRECTORY | libc::O_PATH;

#[derive(Clone, Debug, PartialEq, Eq, Serialize, Deserialize)]
pub struct StepRep {
    pub out: String,
    pub kind: Option<String>,
    pub errno: Option<i32>,
    /// (label in the tree after the step, type, F_GETFL & mask, FD_CLOEXEC)
    pub obj: Option<(Option<B>, String, i32, bool)>,
    pub bytes: Option<B>,
    pub panicked: Option<String>,
}

#[derive(Clone, Debug, Serialize, Deserialize)]
pub struct Report {
    pub openat2_works: bool,
    pub steps: Vec<StepRep>,
    pub final_tree: BTreeMap<B, String>,
    pub outside_changed: Vec<String>,
    /// number of link bodies the emulated walk read during the traced step
    pub readlinks: Option<usize>,
    pub eagain_retries: u64,
}

pub fn child(case: &Case, kcfg: Kcfg, trace_step: Option<usize>) -> Report {
    unsafe { libc::umask(case.umask) };
    let sb = Sandbox::create("c04");
    sb.materialise(&case.tree, &sb.root());
    let before = Snapshot::take_path(&sb.base);
    let rootpath = sb.root();
    let policy = trace_step.map(|_| Policy { observe: true, kinds: false, ..Policy::default() });
    let rep = with_session(kcfg, policy, |s| {
        let openat2_works = s.run(|_, _| match openat2_raw(libc::AT_FDCWD, b".", libc::O_PATH as u64, 0, 0) {
            Ok(fd) => {
                close(fd);
                true
            }
            Err(_) => false,
        });
        let ro = s.run(|_wg, st| match open_root(&rootpath, case.no_symlinks) {
            Ok(r) => {
                st.root = Some(r);
                None
            }
            Err(o) => Some(o),
        });
        if let Some(o) = ro {
            panic!("Root::open failed: {}", o.brief());
        }
        let mut steps = Vec::new();
        let mut readlinks = None;
        let mut eagain_retries = 0u64;
        for (idx, op) in case.steps.iter().enumerate() {
            let traced = trace_step == Some(idx);
            let mut tries = 0;
            let (out, fd) = loop {
                let (out, fd) = s.run(|wg, st| {
                    if traced {
                        wg.enter(idx as u32);
                    }
                    let r = exec_op(st.root.as_ref().unwrap(), op, false);
                    if traced {
                        wg.exit();
                    }
                    r
                });
                tries += 1;
                // Nobody modifies this tree: EAGAIN (and the safety violation
                // resolve() turns 16 of them into) can only come from mounts
                // or renames elsewhere on the system. The call had no effect,
                // so it is simply repeated.
                let transient = match &out {
                    Out::Err { errno: Some(e), .. } if *e == libc::EAGAIN => true,
                    Out::Err { kind, .. } if kind == "safety" && kcfg.has_openat2() => true,
                    _ => false,
                };
                if !transient || tries >= 60 {
                    break (out, fd);
                }
                eagain_retries += 1;
            };
            if traced {
                readlinks = s.take_calls().iter().find(|c| c.id == idx as u32).map(|c| c.trace.iter().filter(|x| x.name == "readlinkat").count());
            }
            let mut rep = StepRep { out: out.class(), kind: None, errno: None, obj: None, bytes: None, panicked: None };
            match &out {
                Out::Fd(o) => {
                    let snap = Snapshot::take_path(&rootpath);
                    let label = snap.label_of(o.id());
                    rep.obj = Some((label, ftype_name(o.ftype).to_string(), o.getfl & GETFL_MASK, o.cloexec));
                }
                Out::Bytes(b) => rep.bytes = Some(b.clone()),
                Out::Err { kind, errno } => {
                    rep.kind = Some(kind.clone());
                    rep.errno = *errno;
                }
                Out::Panicked(m) => rep.panicked = Some(m.clone()),
                Out::Unit => {}
            }
            if let Some(fd) = fd {
                let _ = fd.as_raw_fd();
                s.run(move |_, _| drop(fd));
            }
            steps.push(rep);
        }
        s.run(|_wg, st| st.root = None);
        Report { openat2_works, steps, final_tree: BTreeMap::new(), outside_changed: vec![], readlinks, eagain_retries }
    });
    let after = Snapshot::take_path(&sb.base);
    let mut rep = rep;
    // symlink bodies that name the sandbox contain its per-process path
    let base = sb.base.to_string_lossy().to_string();
    rep.final_tree = after.sub(&B::new("root")).projected().into_iter().map(|(p, e)| (p, e.replace(&base, "@SB@"))).collect();
    for st in rep.steps.iter_mut() {
        if let Some(b) = &st.bytes {
            st.bytes = Some(B(replace_token(&b.0, base.as_bytes(), b"@SB@")));
        }
    }
    // everything of SB that is not below root must be unchanged
    for (p, e) in &before.map {
        if under(p, &B::new("root")) || p.0.is_empty() {
            continue;
        }
        match after.map.get(p) {
            None => rep.outside_changed.push(format!("- {}", p)),
            Some(f) => {
                if e.proj() != f.proj() {
                    rep.outside_changed.push(format!("~ {}", p));
                }
            }
        }
    }
    for (p, _) in &after.map {
        if !before.map.contains_key(p) && !under(p, &B::new("root")) {
            rep.outside_changed.push(format!("+ {}", p));
        }
    }
    sb.destroy();
    rep
}

pub fn kcfgs(case: &Case) -> (Kcfg, Kcfg) {
    if case.mount_api {
        (Kcfg::Full, Kcfg::NoOpenat2)
    } else {
        (Kcfg::NoMountApi, Kcfg::NoOpenat2NoMountApi)
    }
}

enum Ran {
    Rep(Report),
    Crashed(i32),
}

fn run_both(case: &Case) -> Result<Option<(Report, Report)>, Fail> {
    let run = |k: Kcfg| -> Result<Ran, Fail> {
        match run_in_child(60.0, || child(case, k, None)) {
            ChildOut::Ok(r) => Ok(Ran::Rep(r)),
            ChildOut::Crashed { sig } => Ok(Ran::Crashed(sig)),
            ChildOut::Exit { code, stderr_hint } => Err(Fail::Harness(format!("child exit {}: {}", code, stderr_hint))),
            ChildOut::Timeout => Err(Fail::Harness("child timed out".into())),
        }
    };
    let (kf, ke) = kcfgs(case);
    match (run(kf)?, run(ke)?) {
        (Ran::Rep(a), Ran::Rep(b)) => Ok(Some((a, b))),
        // both die the same way (e.g. stack exhaustion in recursive code on a
        // tree thousands of levels deep): not an equivalence matter
        (Ran::Crashed(x), Ran::Crashed(y)) if x == y => Ok(None),
        (x, y) => {
            let d = |r: &Ran| match r {
                Ran::Rep(_) => "returned".to_string(),
                Ran::Crashed(s) => format!("died with signal {}", s),
            };
            Err(Fail::Violation(Violation {
                check: "equiv".into(),
                signature: format!("crash:{}-vs-{}", d(&x).replace(' ', "-"), d(&y).replace(' ', "-")),
                message: format!("kernel backend {}, emulated backend {}", d(&x), d(&y)),
                case: serde_json::to_value(case).unwrap(),
            }))
        }
    }
}

/// first difference between the two runs, if any: (step index or None for final tree, description, signature)
fn first_diff(case: &Case, a: &Report, b: &Report) -> Option<(Option<usize>, String, String)> {
    for (i, (x, y)) in a.steps.iter().zip(b.steps.iter()).enumerate() {
        let op = &case.steps[i];
        if let Some(m) = &x.panicked {
            return Some((Some(i), format!("kernel backend panicked: {}", m), format!("panic:{}:kernel", op.name())));
        }
        if let Some(m) = &y.panicked {
            return Some((Some(i), format!("emulated backend panicked: {}", m), format!("panic:{}:emulated", op.name())));
        }
        if x != y {
            let what = if x.out != y.out || x.errno != y.errno {
                format!("outcome:{}-vs-{}", x.out, y.out)
            } else if x.kind != y.kind {
                format!("kind:{:?}-vs-{:?}", x.kind, y.kind)
            } else if x.bytes != y.bytes {
                "bytes".to_string()
            } else {
                match (&x.obj, &y.obj) {
                    (Some(p), Some(q)) if p.0 != q.0 => "object".to_string(),
                    (Some(p), Some(q)) if p.1 != q.1 => "type".to_string(),
                    (Some(p), Some(q)) if p.2 != q.2 => format!("getfl:0x{:x}{}", p.2 ^ q.2, if p.0 == Some(B::new("")) { ":result=root" } else { "" }),
                    (Some(p), Some(q)) if p.3 != q.3 => "cloexec".to_string(),
                    _ => "other".to_string(),
                }
            };
            // one root cause, many operations: the emulated resolver verifies positions by
            // reading /proc/thread-self/fd/N, which fails with ENAMETOOLONG once the object's
            // absolute path no longer fits PATH_MAX (the in-root path still does)
            let giant = serde_json::to_string(op).map(|s| s.len() >= 3000).unwrap_or(false);
            if giant && y.errno == Some(libc::ENAMETOOLONG) && x.errno != Some(libc::ENAMETOOLONG) {
                return Some((Some(i), format!("step {} {}:\n  kernel  : {:?}\n  emulated: {:?}", i, op.brief(), x, y), "diff:giant-path:emulated-ENAMETOOLONG".to_string()));
            }
            let nul = if op.has_nul() { ":nul" } else { "" };
            return Some((Some(i), format!("step {} {}:\n  kernel  : {:?}\n  emulated: {:?}", i, op.brief(), x, y), format!("diff:{}:{}{}", op.name(), what, nul)));
        }
    }
    if a.final_tree != b.final_tree {
        let mut d = vec![];
        for (p, e) in &a.final_tree {
            match b.final_tree.get(p) {
                None => d.push(format!("only kernel  : {} {}", p, e)),
                Some(f) if f != e => d.push(format!("differs: {}: kernel {} / emulated {}", p, e, f)),
                _ => {}
            }
        }
        for (p, e) in &b.final_tree {
            if !a.final_tree.contains_key(p) {
                d.push(format!("only emulated: {} {}", p, e));
            }
        }
        return Some((None, format!("final trees differ:\n  {}", d.join("\n  ")), "diff:final-tree".to_string()));
    }
    None
}

pub fn check(case: &Case, stats: &mut Stats) -> Result<(), Fail> {
    let mut rounds = 0;
    let (a, b, diff) = loop {
        let (a, b) = match run_both(case)? {
            Some(x) => x,
            None => {
                stats.count("both_backends_crashed_alike", 1);
                return Ok(());
            }
        };
        rounds += 1;
        let d = first_diff(case, &a, &b);
        // openat2 is allowed to fail spuriously (EAGAIN / link budget eaten by
        // restarts) when other lanes mount or rename; a difference has to be
        // reproducible to count.
        let plausibly_transient = match &d {
            Some((Some(i), _, _)) => {
                let t = |r: &StepRep| matches!(r.errno, Some(libc::ELOOP) | Some(libc::EAGAIN) | Some(libc::EXDEV));
                t(&a.steps[*i]) || t(&b.steps[*i])
            }
            // a final-tree difference can be the late effect of such a step
            Some((None, _, _)) => true,
            None => false,
        };
        if d.is_none() || rounds >= 4 || !plausibly_transient {
            break (a, b, d);
        }
        stats.count("reruns_after_disagreement", 1);
    };
    if !a.openat2_works || b.openat2_works {
        return Err(Fail::Harness(format!("kcfg not effective: full has openat2={}, no-openat2 has openat2={}", a.openat2_works, b.openat2_works)));
    }
    stats.count("steps_repeated_after_EAGAIN", a.eagain_retries + b.eagain_retries);
    let th = case.tree.hash();
    let mut nontrivial = false;
    for (i, op) in case.steps.iter().enumerate() {
        stats.eval();
        stats.class(&format!("op:{}", op.name()));
        let r = &a.steps[i];
        stats.class(&format!("outcome:{}", r.out));
        if op.has_nul() {
            stats.class("path-with-NUL");
        }
        if r.out != "Ok" || !op.is_lookup() {
            nontrivial = true;
        }
        if i < 3 {
            stats.class_sample(&format!("op:{}:{}", op.name(), r.out), || json!({"op": op.brief(), "kernel": format!("{:?}", a.steps[i]), "emulated": format!("{:?}", b.steps[i])}));
        }
    }
    if case.tree.has_symlink() {
        nontrivial = true;
    }
    stats.class(if case.mount_api { "kcfg:full-vs-no-openat2" } else { "kcfg:no-mountapi-vs-no-openat2,no-mountapi" });
    if nontrivial {
        stats.nontrivial_key(&format!("{}|{:?}|{}|{}", th, case.steps, case.no_symlinks, case.umask));
        stats.sample(|| json!({"steps": case.steps.iter().map(|o| o.brief()).collect::<Vec<_>>(), "no_symlinks": case.no_symlinks, "kernel": a.steps.iter().map(|s| s.out.clone()).collect::<Vec<_>>(), "emulated": b.steps.iter().map(|s| s.out.clone()).collect::<Vec<_>>(), "tree_nodes": case.tree.entries.len()}));
    }
    for (which, r) in [("kernel", &a), ("emulated", &b)] {
        if !r.outside_changed.is_empty() {
            return Err(Fail::Violation(Violation {
                check: "equiv".into(),
                signature: format!("outside-changed:{}", which),
                message: format!("{} backend changed something outside the root: {:?}", which, r.outside_changed),
                case: serde_json::to_value(case).unwrap(),
            }));
        }
    }
    if let Some((step, msg, sig)) = diff {
        // one-shot open flag sets that the kernel itself rejects are outside the domain
        if let Some(i) = step {
            if let Op::Open { .. } = &case.steps[i] {
                if a.steps[i].errno == Some(libc::EINVAL) && a.steps[i].kind.as_deref() == Some("os") {
                    stats.count("discarded_einval", 1);
                    return Ok(());
                }
            }
        }
        // a kernel-side EAGAIN (or the safety violation 16 of them turn into)
        // that survived 60 repetitions is environmental: nobody touches this tree
        if let Some(i) = step {
            let x = &a.steps[i];
            if x.errno == Some(libc::EAGAIN) || x.kind.as_deref() == Some("safety") {
                stats.count("discarded_persistent_EAGAIN", 1);
                return Ok(());
            }
        }
        // lookups needing more than 40 link traversals are outside the domain
        // (kernel budget 40, emulated budget 128)
        if let Some(i) = step {
            if a.steps[i].errno == Some(libc::ELOOP) && b.steps[i].errno != Some(libc::ELOOP) {
                if let ChildOut::Ok(t) = run_in_child(60.0, || child(case, kcfgs(case).1, Some(i))) {
                    if t.readlinks.unwrap_or(0) > 40 {
                        stats.count("discarded_over_40_traversals", 1);
                        return Ok(());
                    }
                }
            }
        }
        // minimise: keep only the steps up to the differing one
        let mut small = case.clone();
        if let Some(i) = step {
            small.steps.truncate(i + 1);
        }
        return Err(Fail::Violation(Violation {
            check: "equiv".into(),
            signature: sig,
            message: format!("{}{}\n  (reproduced in {} consecutive runs)", msg, if case.no_symlinks { " [NO_SYMLINKS]" } else { "" }, rounds),
            case: serde_json::to_value(&small).unwrap(),
        }));
    }
    Ok(())
}

fn run_lane(ctx: &Ctx, lr: &mut LaneResult) {
    let n = ctx.tier.pick(12000, 150000);
    search(ctx, lr, "equiv", n, strategy(), &check);
}

fn replay(_ctx: &Ctx, _check: &str, case: &Value) -> Result<(), Fail> {
    let case: Case = serde_json::from_value(case.clone()).map_err(|e| Fail::Harness(format!("bad case: {}", e)))?;
    let mut s = Stats::default();
    check(&case, &mut s)
}

pub const PROP: Prop = Prop {
    id: "C04",
    level: "exploration",
    rule: "generated tree x sequence of 1-6 Root operations (lookups, one-shot open, readlink, create of every inode kind, create_file, mkdir_all, remove_*, rename; paths incl. '', embedded NUL, '..', trailing slashes, through links) x resolver flags x umask, interpreted twice in fresh processes: once with openat2 available and once with openat2 answering ENOSYS (seccomp). Step by step the two runs must agree on Ok/Err, error kind and errno, returned object (by path label), type, F_GETFL & (ACCMODE|APPEND|NONBLOCK|DIRECT|SYNC|DSYNC|NOATIME|DIRECTORY|PATH), FD_CLOEXEC, link bodies; afterwards on the path-projected tree. non-trivial = the tree has a symlink, or a step fails, or a step mutates; distinct by (tree hash, steps, flags, umask)",
    assumptions: &[
        "openat2 absence is emulated by seccomp returning ENOSYS on the library's thread (verified per case by a probe)",
        "one-shot open flag sets the kernel's openat2 itself rejects with EINVAL are outside the domain (counted as discarded_einval)",
        "a difference must reproduce in 4 consecutive runs (openat2 may fail spuriously with EAGAIN/ELOOP while other lanes mount or rename)",
        "tmpfs only",
    ],
    lanes: |_| 16,
    run_lane,
    replay,
    extra: None,
    exhaustive: false,
};
