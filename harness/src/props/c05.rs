//! C05 — only single, non-followed components are ever handed to the kernel.

use crate::driver::*;
use crate::exec::*;
use crate::gate::*;
use crate::util::*;
use crate::workload::*;
use serde_json::{json, Value};

const O_CLOEXEC: u64 = libc::O_CLOEXEC as u64;
const O_NOFOLLOW: u64 = libc::O_NOFOLLOW as u64;
const O_NOCTTY: u64 = libc::O_NOCTTY as u64;
const O_PATH: u64 = libc::O_PATH as u64;
const AT_SYMLINK_NOFOLLOW: u64 = libc::AT_SYMLINK_NOFOLLOW as u64;
const AT_SYMLINK_FOLLOW: u64 = libc::AT_SYMLINK_FOLLOW as u64;
const AT_EMPTY_PATH: u64 = libc::AT_EMPTY_PATH as u64;

fn is_digits(b: &[u8]) -> bool {
    !b.is_empty() && b.iter().all(|c| c.is_ascii_digit())
}

#[derive(Debug, Clone, Copy, PartialEq, Eq)]
enum Where {
    Sandbox,
    Procfs,
    Cwd,
    Other,
    Bad,
}

fn where_of(k: &FdKind, sandbox_dev: u64) -> Where {
    match k {
        FdKind::Cwd => Where::Cwd,
        FdKind::Inode { dev, .. } if *dev == sandbox_dev => Where::Sandbox,
        FdKind::Inode { .. } => Where::Other,
        FdKind::Procfs { .. } => Where::Procfs,
        FdKind::Bad => Where::Bad,
        FdKind::NotAnFd => Where::Other,
    }
}

/// The discipline predicate for one traced syscall. Returns a rule name and
/// explanation when violated.
pub fn judge_sys(sys: &Sys, step: &WStep, sandbox_dev: u64, root_path: &str) -> Result<&'static str, (String, String)> {
    let d = match desc(sys.nr) {
        Some(d) => d,
        None => return Ok("untracked"),
    };
    let bad = |rule: &str, why: &str| Err((rule.to_string(), format!("{}: {}", why, sys.short())));
    let follow_op = matches!(step, WStep::ProcOpen { follow: true, .. });
    // rule 5: no legacy path syscalls, with literal diagnostic exceptions
    if d.legacy {
        let p = sys.paths.first().map(|p| p.0.clone()).unwrap_or_default();
        // the same diagnostic through the pre-3.17 spelling of thread-self, which the
        // library falls back to when its probe of /proc/thread-self fails
        let task_spelling = p.strip_prefix(b"/proc/self/task/").map(|r| {
            let mut it = r.splitn(2, |&c| c == b'/');
            let tid = it.next().unwrap_or(b"");
            let rest = it.next().unwrap_or(b"");
            is_digits(tid) && (rest == b"cwd" || rest.strip_prefix(b"fd/").map(is_digits).unwrap_or(false))
        });
        if sys.name == "readlink" && (p.starts_with(b"/proc/thread-self/fd/") || p == b"/proc/thread-self/cwd" || p.starts_with(b"/proc/self/fd/") || task_spelling == Some(true)) {
            return Ok("diag-readlink");
        }
        return bad("legacy-syscall", "path syscall without directory descriptor");
    }
    if matches!(sys.name.as_str(), "fchdir" | "chroot" | "execveat" | "name_to_handle_at" | "open_by_handle_at" | "move_mount" | "fchmodat" | "fchownat" | "utimensat" | "faccessat") {
        return bad("unexpected-syscall", "syscall the library has no business issuing");
    }
    // rule 4: descriptor-creating calls ask for close-on-exec
    match sys.name.as_str() {
        "openat" | "open" => {
            if sys.flags & O_CLOEXEC == 0 {
                return bad("cloexec", "open without O_CLOEXEC");
            }
            // O_PATH never opens the device, O_DIRECTORY can only yield a directory
            if sys.flags & (O_PATH | libc::O_DIRECTORY as u64) == 0 && sys.flags & O_NOCTTY == 0 {
                return bad("noctty", "open that could yield a terminal without O_NOCTTY");
            }
        }
        "openat2" => {
            let (f, _) = sys.how.unwrap_or((0, 0));
            if f & O_CLOEXEC == 0 {
                return bad("cloexec", "openat2 without O_CLOEXEC");
            }
            // the feature probe opens "." with empty flags: O_PATH-less but a directory
            let probe = sys.dirfds.first().map(|(fd, _)| *fd == libc::AT_FDCWD).unwrap_or(false) && sys.paths.first().map(|p| p.0 == b".").unwrap_or(false);
            if f & (O_PATH | libc::O_DIRECTORY as u64) == 0 && f & O_NOCTTY == 0 && !probe {
                return bad("noctty", "non-O_PATH openat2 without O_NOCTTY");
            }
        }
        "fcntl" => {
            let cmd = sys.args[1] as i32;
            if cmd == libc::F_DUPFD {
                return bad("cloexec", "fcntl(F_DUPFD) instead of F_DUPFD_CLOEXEC");
            }
            if cmd == libc::F_SETFD && sys.args[2] & libc::FD_CLOEXEC as u64 == 0 {
                return bad("cloexec", "fcntl(F_SETFD) clearing FD_CLOEXEC");
            }
        }
        "dup" | "dup2" => return bad("cloexec", "dup/dup2 cannot set close-on-exec"),
        "dup3" => {
            if sys.flags & O_CLOEXEC == 0 {
                return bad("cloexec", "dup3 without O_CLOEXEC");
            }
        }
        "fsopen" => {
            if sys.flags & 1 == 0 {
                return bad("cloexec", "fsopen without FSOPEN_CLOEXEC");
            }
        }
        "fsmount" => {
            if sys.flags & 1 == 0 {
                return bad("cloexec", "fsmount without FSMOUNT_CLOEXEC");
            }
        }
        "open_tree" => {
            if sys.flags & O_CLOEXEC == 0 {
                return bad("cloexec", "open_tree without OPEN_TREE_CLOEXEC");
            }
        }
        _ => {}
    }
    if d.neutral || d.dirfds.is_empty() && d.paths.is_empty() {
        return Ok("fd-only");
    }
    if sys.name == "fsopen" {
        return if sys.paths[0].0 == b"proc" { Ok("fsopen-proc") } else { bad("fsopen", "fsopen of something other than proc") };
    }
    if matches!(sys.name.as_str(), "fsconfig" | "fsmount" | "getdents64" | "getdents" | "read" | "pread64") {
        return Ok("fd-only");
    }
    // an empty path with AT_EMPTY_PATH names the descriptor itself
    if matches!(sys.name.as_str(), "newfstatat" | "statx") && sys.paths.first().map(|p| p.0.is_empty()).unwrap_or(false) && sys.flags & AT_EMPTY_PATH != 0 {
        return Ok("fd-only");
    }
    // pairs (dirfd, path)
    let mut verdict = "ok";
    for (i, (fd, kind)) in sys.dirfds.iter().enumerate() {
        let path = match sys.paths.get(i) {
            Some(p) => &p.0,
            None => continue,
        };
        let w = where_of(kind, sandbox_dev);
        let absolute = path.starts_with(b"/");
        let multi = path.contains(&b'/');
        // a confined openat2 may be given any path: the kernel clamps it
        if sys.name == "openat2" && (w == Where::Sandbox || w == Where::Procfs) {
            let (_, r) = sys.how.unwrap_or((0, 0));
            let need = if w == Where::Sandbox { RESOLVE_IN_ROOT | RESOLVE_NO_MAGICLINKS } else { RESOLVE_BENEATH | RESOLVE_NO_XDEV | RESOLVE_NO_MAGICLINKS };
            if r & need != need {
                return bad(if w == Where::Sandbox { "openat2-root-mask" } else { "openat2-procfs-mask" }, "openat2 without the confining RESOLVE_* mask");
            }
            verdict = if w == Where::Sandbox { "openat2-in-root" } else { "openat2-procfs" };
            continue;
        }
        // rule 3: AT_FDCWD / absolute paths only in white-listed literal shapes
        if absolute || w == Where::Cwd {
            let p = path.as_slice();
            let ok = match sys.name.as_str() {
                "openat" => (p == root_path.as_bytes() && matches!(step, WStep::OpenRoot { .. })) || p == b"/proc",
                "open_tree" => p == b"/proc",
                "newfstatat" | "statx" => p.starts_with(b"/proc/thread-self") || p.starts_with(b"/proc/self"),
                "openat2" => p == b"." && *fd == libc::AT_FDCWD && sys.how.map(|(f, r)| r == 0 && f & !(O_CLOEXEC) == 0).unwrap_or(false),
                "renameat2" => p == b"." && *fd == libc::AT_FDCWD,
                _ => false,
            };
            if !ok {
                return bad("cwd-or-absolute", "AT_FDCWD-relative or absolute path outside the white-list");
            }
            verdict = "whitelisted-bootstrap";
            continue;
        }
        match w {
            Where::Sandbox => {
                if sys.name == "openat2" {
                    let (_, r) = sys.how.unwrap_or((0, 0));
                    if r & (RESOLVE_IN_ROOT | RESOLVE_NO_MAGICLINKS) != (RESOLVE_IN_ROOT | RESOLVE_NO_MAGICLINKS) {
                        return bad("openat2-root-mask", "openat2 on the tree without RESOLVE_IN_ROOT|RESOLVE_NO_MAGICLINKS");
                    }
                    verdict = "openat2-in-root";
                    continue;
                }
                if multi {
                    return bad("multi-component", "more than one path component relative to a directory of the tree");
                }
                match sys.name.as_str() {
                    "openat" => {
                        if sys.flags & O_NOFOLLOW == 0 {
                            return bad("follow", "open of a tree component without O_NOFOLLOW");
                        }
                    }
                    "newfstatat" => {
                        if path.is_empty() {
                            if sys.flags & AT_EMPTY_PATH == 0 {
                                return bad("empty-path", "empty path without AT_EMPTY_PATH");
                            }
                        } else if sys.flags & AT_SYMLINK_NOFOLLOW == 0 {
                            return bad("follow", "fstatat of a tree component without AT_SYMLINK_NOFOLLOW");
                        }
                    }
                    "statx" => {
                        if !path.is_empty() && sys.flags & AT_SYMLINK_NOFOLLOW == 0 {
                            return bad("follow", "statx of a tree component without AT_SYMLINK_NOFOLLOW");
                        }
                    }
                    "faccessat2" => {
                        if sys.flags & AT_SYMLINK_NOFOLLOW == 0 {
                            return bad("follow", "faccessat2 without AT_SYMLINK_NOFOLLOW");
                        }
                    }
                    "linkat" => {
                        if sys.flags & AT_SYMLINK_FOLLOW != 0 {
                            return bad("follow", "linkat with AT_SYMLINK_FOLLOW");
                        }
                    }
                    "readlinkat" | "mkdirat" | "mknodat" | "unlinkat" | "symlinkat" | "renameat" | "renameat2" => {}
                    "open_tree" => return bad("unexpected-syscall", "open_tree on the tree"),
                    _ => {}
                }
                if verdict == "ok" {
                    verdict = "single-component-nofollow";
                }
            }
            Where::Procfs => {
                if sys.name == "openat2" {
                    let (_, r) = sys.how.unwrap_or((0, 0));
                    let need = RESOLVE_BENEATH | RESOLVE_NO_XDEV | RESOLVE_NO_MAGICLINKS;
                    if r & need != need {
                        return bad("openat2-procfs-mask", "openat2 on procfs without RESOLVE_BENEATH|RESOLVE_NO_XDEV|RESOLVE_NO_MAGICLINKS");
                    }
                    verdict = "openat2-procfs";
                    continue;
                }
                if sys.name == "openat" {
                    if multi {
                        return bad("multi-component", "multi-component openat on procfs");
                    }
                    if sys.flags & O_NOFOLLOW == 0 {
                        // the two permitted following opens
                        let fdlink = is_digits(path) && matches!(kind, FdKind::Procfs { ftype, .. } if *ftype == libc::S_IFDIR);
                        let reopen_ctx = matches!(step, WStep::Reopen { .. } | WStep::Root { op: crate::ops::Op::MkdirAll { .. }, .. } | WStep::Root { op: crate::ops::Op::Open { .. }, .. });
                        if fdlink && (reopen_ctx || follow_op) {
                            verdict = "followed-fd-magiclink";
                        } else if follow_op {
                            verdict = "followed-requested-proc-link";
                        } else {
                            return bad("follow", "following open on procfs outside reopen/open_follow");
                        }
                    } else if verdict == "ok" {
                        verdict = "procfs-single-component-nofollow";
                    }
                    continue;
                }
                if multi && !(sys.name == "newfstatat" && path.starts_with(b"self/task/")) {
                    return bad("multi-component", "multi-component path relative to a procfs descriptor");
                }
                match sys.name.as_str() {
                    "newfstatat" => {
                        if !path.is_empty() && sys.flags & AT_SYMLINK_NOFOLLOW == 0 {
                            return bad("follow", "fstatat on procfs without AT_SYMLINK_NOFOLLOW");
                        }
                    }
                    "statx" => {
                        if !path.is_empty() && sys.flags & AT_SYMLINK_NOFOLLOW == 0 {
                            return bad("follow", "statx on procfs without AT_SYMLINK_NOFOLLOW");
                        }
                    }
                    "faccessat2" => {
                        if sys.flags & AT_SYMLINK_NOFOLLOW == 0 {
                            return bad("follow", "faccessat2 on procfs without AT_SYMLINK_NOFOLLOW");
                        }
                    }
                    "readlinkat" => {}
                    _ => return bad("unexpected-syscall", "unexpected syscall on a procfs descriptor"),
                }
                if verdict == "ok" {
                    verdict = "procfs-single-component-nofollow";
                }
            }
            Where::Bad => {
                // a descriptor that is not open: the call fails with EBADF; no path reaches the kernel
                verdict = "bad-fd";
            }
            Where::Other | Where::Cwd => {
                return bad("foreign-dirfd", "path lookup relative to a descriptor that is neither the tree nor procfs");
            }
        }
    }
    Ok(verdict)
}

pub fn judge(case: &WCase, rep: &WReport, stats: &mut Stats) -> Result<(), Fail> {
    if let Some(f) = &rep.fatal {
        return Err(Fail::Harness(f.clone()));
    }
    for (i, (step, rec)) in case.steps.iter().zip(rep.steps.iter()).enumerate() {
        stats.count("library_calls", 1);
        stats.class(&format!("op:{}", step.name()));
        let call = match &rec.call {
            Some(c) => c,
            None => continue,
        };
        let mk = |rule: &str, why: String| -> Fail {
            let single = WCase { tree: case.tree.clone(), kcfg: case.kcfg, no_symlinks: case.no_symlinks, steps: case.steps[..=i].to_vec() };
            Fail::Violation(Violation {
                check: "discipline".into(),
                signature: format!("{}:{}:{}", rule, step.name(), if case.kcfg.has_openat2() { "kernel" } else { "emulated" }),
                message: format!("during {} (kcfg {}): {}\n  outcome: {}", step.brief(), case.kcfg.name(), why, rec.out.brief()),
                case: serde_json::to_value(&single).unwrap(),
            })
        };
        for a in &call.alarms {
            if a.contains("without FD_CLOEXEC") {
                return Err(mk("cloexec-observed", a.clone()));
            }
        }
        for sys in &call.trace {
            stats.eval();
            match judge_sys(sys, step, rep.sandbox_dev, &rep.root_path) {
                Ok(v) => {
                    stats.class(&format!("rule:{}", v));
                    if v != "fd-only" && v != "untracked" {
                        let shape = sys.paths.iter().map(|p| if p.0.is_empty() { "empty" } else if is_digits(&p.0) { "digits" } else if p.0 == b"." || p.0 == b".." { "dots" } else if p.0.contains(&b'/') { "multi" } else { "name" }).collect::<Vec<_>>().join(",");
                        stats.nontrivial_key(&format!("{}|{:x}|{}|{}|{}", sys.name, sys.flags, shape, step.name(), v));
                        stats.class_sample(&format!("{}:{}", v, sys.name), || json!({"during": step.brief(), "kcfg": case.kcfg.name(), "syscall": sys.short()}));
                    }
                }
                Err((rule, why)) => return Err(mk(&rule, why)),
            }
        }
        if i == 0 {
            stats.sample(|| json!({"call": step.brief(), "kcfg": case.kcfg.name(), "outcome": rec.out.brief(), "trace": call.trace.iter().take(40).map(|s| s.short()).collect::<Vec<_>>()}));
        }
    }
    Ok(())
}

pub fn child(case: &WCase) -> WReport {
    let policy = Policy { observe: true, kinds: true, check_cloexec: true, ..Policy::default() };
    run_workload(case, policy, "c05", false)
}

pub fn check(case: &WCase, stats: &mut Stats) -> Result<(), Fail> {
    match run_in_child(60.0, || child(case)) {
        ChildOut::Ok(rep) => judge(case, &rep, stats),
        ChildOut::Crashed { sig } => Err(Fail::Harness(format!("child died with signal {} (not a C05 matter)", sig))),
        ChildOut::Exit { code, stderr_hint } => Err(Fail::Harness(format!("child exit {}: {}", code, stderr_hint))),
        ChildOut::Timeout => Err(Fail::Harness("child timed out".into())),
    }
}

/// The same workload with one system call failing: the error paths (retries,
/// fall-backs, clean-up) are held to the same discipline.
#[derive(Clone, Debug, serde::Serialize, serde::Deserialize)]
pub struct FaultedCase {
    pub w: WCase,
    /// which of the workload's in-call system calls fails (selector over the un-faulted count)
    pub at: u16,
    pub errno: i32,
}

const FAULT_ERRNOS: [i32; 8] = [libc::EINTR, libc::EAGAIN, libc::ENOMEM, libc::EMFILE, libc::EIO, libc::ENOSYS, libc::EACCES, libc::EPERM];

pub fn faulted_child(case: &FaultedCase) -> (WReport, Option<String>) {
    use std::sync::atomic::{AtomicUsize, Ordering};
    use std::sync::Arc;
    let plain = run_workload(&case.w, Policy { observe: true, kinds: false, ..Policy::default() }, "c05f0", false);
    let n: usize = plain.steps.iter().filter_map(|s| s.call.as_ref()).map(|c| c.trace.len()).sum();
    if n == 0 {
        return (plain, None);
    }
    let target = crate::gen::pick(case.at, n);
    let seen = Arc::new(AtomicUsize::new(0));
    let hit: Arc<std::sync::Mutex<Option<String>>> = Arc::new(std::sync::Mutex::new(None));
    let (seen2, hit2, errno) = (seen.clone(), hit.clone(), case.errno);
    let hook: Hook = Box::new(move |sys: &Sys, _c: &mut CallRec| {
        let k = seen2.fetch_add(1, Ordering::SeqCst);
        // the kernel releases a descriptor whatever close() says
        if k == target && !matches!(sys.name.as_str(), "close" | "dup" | "dup2" | "dup3") {
            *hit2.lock().unwrap() = Some(sys.short());
            return Action::Errno(errno);
        }
        Action::Continue
    });
    let policy = Policy { observe: true, kinds: true, check_cloexec: true, hook: Some(hook), ..Policy::default() };
    let rep = run_workload(&case.w, policy, "c05f1", false);
    let h = hit.lock().unwrap().clone();
    (rep, h)
}

pub fn check_faulted(case: &FaultedCase, stats: &mut Stats) -> Result<(), Fail> {
    match run_in_child(120.0, || faulted_child(case)) {
        ChildOut::Ok((rep, hit)) => {
            if let Some(h) = &hit {
                stats.class(&format!("fault-injected:{}", errno_name(case.errno)));
                stats.class_sample(&format!("fault:{}:{}", errno_name(case.errno), h.split('(').next().unwrap_or("")), || json!({"injected": format!("{} =! {}", h, errno_name(case.errno)), "kcfg": case.w.kcfg.name()}));
            }
            judge(&case.w, &rep, stats).map_err(|f| match f {
                Fail::Violation(mut v) => {
                    v.check = "discipline-under-faults".into();
                    v.signature = format!("{}:after-fault", v.signature);
                    v.message = format!("{}\n  with one failing system call: {} =! {}", v.message, hit.clone().unwrap_or_default(), errno_name(case.errno));
                    // the replay needs the whole workload up to that step and the fault
                    let w: WCase = serde_json::from_value(v.case.clone()).unwrap_or_else(|_| case.w.clone());
                    let _ = w;
                    v.case = serde_json::to_value(case).unwrap();
                    Fail::Violation(v)
                }
                other => other,
            })
        }
        ChildOut::Crashed { sig } => Err(Fail::Harness(format!("child died with signal {} (not a C05 matter)", sig))),
        ChildOut::Exit { code, stderr_hint } => Err(Fail::Harness(format!("child exit {}: {}", code, stderr_hint))),
        ChildOut::Timeout => Err(Fail::Harness("child timed out".into())),
    }
}

/// One directed call (the ones that do work: remove_all, creations, mkdir_all, rename,
/// reopen …) with EVERY system call of its trace failing in turn with EACCES / EINTR /
/// ENOMEM / EMFILE: recovery code that only runs after a particular failure is held to
/// the discipline too.
#[derive(Clone, Debug, serde::Serialize, serde::Deserialize)]
pub struct EnumCase {
    pub w: WCase,
    #[serde(default)]
    pub only: Option<(usize, i32)>,
}

const ENUM_ERRNOS: [i32; 4] = [libc::EACCES, libc::EINTR, libc::ENOMEM, libc::EMFILE];

pub fn enum_child(case: &EnumCase) -> Vec<((usize, i32), WReport, Option<String>)> {
    use std::sync::atomic::{AtomicUsize, Ordering};
    use std::sync::Arc;
    let plain = run_workload(&case.w, Policy { observe: true, kinds: false, ..Policy::default() }, "c05e0", false);
    let n: usize = plain.steps.iter().filter_map(|s| s.call.as_ref()).map(|c| c.trace.len()).sum();
    let mut faults: Vec<(usize, i32)> = match case.only {
        Some(f) => vec![f],
        None => (0..n).flat_map(|i| ENUM_ERRNOS.iter().map(move |e| (i, *e))).collect(),
    };
    // bounded work: an evenly spaced sample of at most 320 (index, errno) pairs
    if faults.len() > 320 {
        let total = faults.len();
        faults = (0..320).map(|k| faults[k * total / 320]).collect();
    }
    let mut out = vec![];
    for (target, errno) in faults {
        let seen = Arc::new(AtomicUsize::new(0));
        let hit: Arc<std::sync::Mutex<Option<String>>> = Arc::new(std::sync::Mutex::new(None));
        let (seen2, hit2) = (seen.clone(), hit.clone());
        let hook: Hook = Box::new(move |sys: &Sys, _c: &mut CallRec| {
            let k = seen2.fetch_add(1, Ordering::SeqCst);
            if k == target && !matches!(sys.name.as_str(), "close" | "dup" | "dup2" | "dup3") {
                *hit2.lock().unwrap() = Some(sys.short());
                return Action::Errno(errno);
            }
            Action::Continue
        });
        let policy = Policy { observe: true, kinds: true, check_cloexec: true, hook: Some(hook), ..Policy::default() };
        let rep = run_workload(&case.w, policy, "c05e1", false);
        let h = hit.lock().unwrap().clone();
        out.push(((target, errno), rep, h));
    }
    out
}

pub fn check_enum(case: &EnumCase, stats: &mut Stats) -> Result<(), Fail> {
    match run_in_child(300.0, || enum_child(case)) {
        ChildOut::Ok(runs) => {
            stats.count("enumerated_fault_scenarios", 1);
            for ((target, errno), rep, hit) in runs {
                if hit.is_some() {
                    stats.class(&format!("enumerated-fault:{}", errno_name(errno)));
                }
                if let Err(f) = judge(&case.w, &rep, stats) {
                    return Err(match f {
                        Fail::Violation(mut v) => {
                            v.check = "discipline-under-enumerated-faults".into();
                            v.signature = format!("{}:after-fault", v.signature);
                            v.message = format!("{}\n  with one failing system call (#{}): {} =! {}", v.message, target, hit.clone().unwrap_or_default(), errno_name(errno));
                            let mut single = case.clone();
                            single.only = Some((target, errno));
                            v.case = serde_json::to_value(&single).unwrap();
                            Fail::Violation(v)
                        }
                        other => other,
                    });
                }
            }
            Ok(())
        }
        ChildOut::Crashed { sig } => Err(Fail::Harness(format!("child died with signal {} (not a C05 matter)", sig))),
        ChildOut::Exit { code, stderr_hint } => Err(Fail::Harness(format!("child exit {}: {}", code, stderr_hint))),
        ChildOut::Timeout => Err(Fail::Harness("child timed out".into())),
    }
}

fn enum_strategy() -> impl proptest::strategy::Strategy<Value = EnumCase> {
    use crate::gate::Kcfg;
    use proptest::prelude::*;
    (crate::gen::tree_recipe(7), prop_oneof![2 => Just(Kcfg::NoMountApi), 3 => Just(Kcfg::NoOpenat2NoMountApi), 1 => Just(Kcfg::Full), 1 => Just(Kcfg::NoOpenat2)], any::<u8>(), any::<u16>(), any::<u16>(), prop_oneof![3 => Just(false), 1 => Just(true)]).prop_map(|(tr, kcfg, kind, sel, sel2, capi)| {
        let tree = crate::gen::build_tree(&tr);
        let step = crate::props::c10::success_step(&tree, kind, sel, sel2, capi);
        EnumCase { w: WCase { tree, kcfg, no_symlinks: false, steps: vec![step] }, only: None }
    })
}

fn faulted_strategy() -> impl proptest::strategy::Strategy<Value = FaultedCase> {
    use proptest::prelude::*;
    (wcase(4), any::<u16>(), 0usize..FAULT_ERRNOS.len()).prop_map(|(w, at, e)| FaultedCase { w, at, errno: FAULT_ERRNOS[e] })
}

fn run_lane(ctx: &Ctx, lr: &mut LaneResult) {
    let n = ctx.tier.pick(8000, 80000);
    search(ctx, lr, "discipline", n, wcase(8), &check);
    if lr.violations.is_empty() {
        search_opts(ctx, lr, "discipline-under-faults", ctx.tier.pick(4000, 40000), faulted_strategy(), &check_faulted, 60);
    }
    if lr.violations.is_empty() {
        search_opts(ctx, lr, "discipline-under-enumerated-faults", ctx.tier.pick(96, 960), enum_strategy(), &check_enum, 4);
    }
}

fn replay(_ctx: &Ctx, check_name: &str, case: &Value) -> Result<(), Fail> {
    if check_name == "discipline-under-enumerated-faults" {
        let case: EnumCase = serde_json::from_value(case.clone()).map_err(|e| Fail::Harness(format!("bad case: {}", e)))?;
        let mut s = Stats::default();
        return check_enum(&case, &mut s);
    }
    if check_name == "discipline-under-faults" {
        let case: FaultedCase = serde_json::from_value(case.clone()).map_err(|e| Fail::Harness(format!("bad case: {}", e)))?;
        let mut s = Stats::default();
        return check_faulted(&case, &mut s);
    }
    let case: WCase = serde_json::from_value(case.clone()).map_err(|e| Fail::Harness(format!("bad case: {}", e)))?;
    let mut s = Stats::default();
    check(&case, &mut s)
}

pub const PROP: Prop = Prop {
    id: "C05",
    level: "exploration",
    rule: "generated tree x sequence of 1-8 library calls (every Root operation through Rust and C API, Root::open, try_clone, resolve+reopen, ProcfsHandle open/open_follow/readlink and pathrs_proc_*) x resolver flags x six kernel configurations (openat2 / fsopen / open_tree answered ENOSYS by seccomp), first-use initialisation included; every system call the library thread makes inside a call is reported by a seccomp user-notification supervisor (number, dirfd and what it refers to by fstat+fstatfs, path bytes, flags, openat2 how) and judged by the discipline predicate (single component, never followed, RESOLVE masks, white-listed bootstrap shapes, close-on-exec requested and observed, O_NOCTTY, no legacy syscalls). A second driver repeats workloads of 1-4 calls with ONE system call (selected over the un-faulted trace) failing with EINTR / EAGAIN / ENOMEM / EMFILE / EIO / ENOSYS and judges the faulted execution by the same predicate (retries, fall-backs and clean-up are executions too); a third driver takes one directed call that does work (remove_all, creations, mkdir_all, rename, reopen …) and fails EVERY system call of its trace in turn with EACCES / EINTR / ENOMEM / EMFILE (sample of 320 pairs when there are more). evaluations = judged syscalls; non-trivial = path-taking syscalls on the tree or on procfs; distinct by (syscall, flag word, path shape, operation, rule)",
    assumptions: &[
        "the seccomp filter table lists every path-taking and descriptor-creating syscall (legacy spellings included); a syscall outside the table would not be seen",
        "what a dirfd refers to is decided by the supervisor's own fstat/fstatfs of the shared descriptor table at the moment of the call",
        "the white-list of AT_FDCWD/absolute shapes is literal: root path for Root::open, /proc bootstrap, the two feature probes, /proc/thread-self diagnostics",
    ],
    lanes: |_| 16,
    run_lane,
    replay,
    extra: None,
    exhaustive: false,
};
