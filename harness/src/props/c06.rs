//! C06 — procfs calls return only genuine procfs objects under any over-mounts.

use crate::capi::*;
use crate::driver::*;
use crate::exec::*;
use crate::gate::*;
use crate::gen::pick;
use crate::props::c07::{base_path, fsmount_proc, open_base_fd, open_tree_proc, pristine_walk, pristine_walk2, POp};
use crate::sandbox::*;
use crate::util::*;
use crate::workload::PBase;
use pathrs::flags::OpenFlags;
use pathrs::procfs::ProcfsHandle;
use proptest::collection::vec;
use proptest::prelude::*;
use serde::{Deserialize, Serialize};
use serde_json::{json, Value};
use std::ffi::CString;
use std::os::unix::io::{AsRawFd, FromRawFd, OwnedFd};

// ---------------------------------------------------------------------------
// mount-namespace helpers (also used by C08 / C09)

pub fn enter_private_mntns() -> Result<(), String> {
    unsafe {
        if libc::unshare(libc::CLONE_NEWNS) != 0 {
            return Err(format!("unshare(CLONE_NEWNS): {}", errno_name(errno())));
        }
        let root = CString::new("/").unwrap();
        if libc::mount(std::ptr::null(), root.as_ptr(), std::ptr::null(), libc::MS_REC | libc::MS_PRIVATE, std::ptr::null()) != 0 {
            return Err(format!("make / private: {}", errno_name(errno())));
        }
    }
    Ok(())
}

pub fn drop_privileges(uid: u32) -> Result<(), String> {
    unsafe {
        if libc::setgroups(0, std::ptr::null()) != 0 {
            return Err(format!("setgroups: {}", errno_name(errno())));
        }
        if libc::syscall(libc::SYS_setresgid, uid, uid, uid) != 0 {
            return Err(format!("setresgid: {}", errno_name(errno())));
        }
        if libc::syscall(libc::SYS_setresuid, uid, uid, uid) != 0 {
            return Err(format!("setresuid: {}", errno_name(errno())));
        }
        libc::prctl(libc::PR_SET_DUMPABLE, 1, 0, 0, 0);
    }
    Ok(())
}

#[derive(Clone, Debug, PartialEq, Eq, Serialize, Deserialize)]
pub enum OverMount {
    TmpfsOn(String),
    /// tmpfs over a procfs directory, populated with one link per former child name that
    /// climbs out of the tmpfs again ("<name> -> ../../1/…"): a lookup that is allowed to
    /// enter the over-mount comes out on genuine procfs, at another process's entry
    TmpfsWithClimbers(String),
    BindDirOn(String, String),
    /// bind `src` over `dst`; `dst` may be a symlink / magic-link (mounted through an O_PATH|O_NOFOLLOW descriptor)
    BindFileOnLink(String, String),
    /// bind the symlink / magic-link `src` itself (not its target) over `dst`
    BindLinkOnLink(String, String),
}

pub fn bind_over(src: &str, dst: &str) -> Result<(), i32> {
    bind_over2(src, dst, false)
}

pub fn bind_over2(src: &str, dst: &str, src_nofollow: bool) -> Result<(), i32> {
    // mount over exactly `dst` (never its target): go through a no-follow O_PATH descriptor
    let d = openat_raw(libc::AT_FDCWD, dst.as_bytes(), libc::O_PATH | libc::O_NOFOLLOW, 0)?;
    let s = match openat_raw(libc::AT_FDCWD, src.as_bytes(), libc::O_PATH | if src_nofollow { libc::O_NOFOLLOW } else { 0 }, 0) {
        Ok(s) => s,
        Err(e) => {
            close(d);
            return Err(e);
        }
    };
    let dp = CString::new(format!("/proc/self/fd/{}", d)).unwrap();
    let sp = CString::new(format!("/proc/self/fd/{}", s)).unwrap();
    let r = unsafe { libc::mount(sp.as_ptr(), dp.as_ptr(), std::ptr::null(), libc::MS_BIND, std::ptr::null()) };
    let e = errno();
    close(d);
    close(s);
    if r == 0 {
        Ok(())
    } else {
        Err(e)
    }
}

pub fn tmpfs_on(dst: &str) -> Result<(), i32> {
    let d = CString::new(dst).unwrap();
    let t = CString::new("tmpfs").unwrap();
    let r = unsafe { libc::mount(t.as_ptr(), d.as_ptr(), t.as_ptr(), 0, std::ptr::null()) };
    if r == 0 {
        Ok(())
    } else {
        Err(errno())
    }
}

/// Mount a tmpfs on `dst` (a directory below /proc) and fill it with climbing links.
pub fn tmpfs_with_climbers(dst: &str) -> Result<(), i32> {
    let rel = dst.trim_start_matches("/proc/").trim_end_matches('/');
    let comps: Vec<&str> = rel.split('/').filter(|c| !c.is_empty()).collect();
    let me = std::process::id().to_string();
    let numeric = |c: &str| !c.is_empty() && c.bytes().all(|b| b.is_ascii_digit());
    // the same place below pid 1 (our pid / tid replaced by 1); for non-pid directories: "1"
    let mirror: Vec<String> = if comps.first().map(|c| *c == me || *c == "self" || *c == "thread-self").unwrap_or(false) { comps.iter().map(|c| if numeric(c) || *c == "self" || *c == "thread-self" { "1".to_string() } else { c.to_string() }).collect() } else { vec!["1".to_string()] };
    let climb = "../".repeat(comps.len());
    let children: Vec<Vec<u8>> = match openat_raw(libc::AT_FDCWD, dst.as_bytes(), libc::O_RDONLY | libc::O_DIRECTORY, 0) {
        Ok(fd) => {
            let l = listdir(fd).unwrap_or_default();
            close(fd);
            l
        }
        Err(e) => return Err(e),
    };
    tmpfs_on(dst)?;
    for c in children.iter().take(40) {
        let name = String::from_utf8_lossy(c).to_string();
        let target_name = if numeric(&name) { "1".to_string() } else { name.clone() };
        let body = format!("{}{}/{}", climb, mirror.join("/"), target_name);
        let _ = std::os::unix::fs::symlink(&body, format!("{}/{}", dst, name));
    }
    Ok(())
}

pub fn apply_overmounts(plans: &[OverMount]) -> Vec<String> {
    let mut log = vec![];
    for p in plans {
        let r = match p {
            OverMount::TmpfsOn(d) => tmpfs_on(d),
            OverMount::TmpfsWithClimbers(d) => tmpfs_with_climbers(d),
            OverMount::BindDirOn(s, d) | OverMount::BindFileOnLink(s, d) => bind_over(s, d),
            OverMount::BindLinkOnLink(s, d) => bind_over2(s, d, true),
        };
        log.push(format!("{:?}: {}", p, match r { Ok(()) => "ok".to_string(), Err(e) => errno_name(e) }));
    }
    log
}

// ---------------------------------------------------------------------------

#[derive(Clone, Copy, Debug, PartialEq, Eq, Hash, Serialize, Deserialize)]
pub enum HKind {
    /// ProcfsHandle::new() (what it gets depends on the kernel configuration)
    New,
    Fsmount,
    OpenTree,
    OpenTreeRecursiveBefore,
    OpenTreeRecursiveAfter,
    PlainOpen,
    CApi,
}

#[derive(Clone, Copy, Debug, PartialEq, Eq, Hash, Serialize, Deserialize)]
pub enum MKind {
    Tmpfs,
    BindForeign,
    BindProcfs,
    /// a foreign symlink whose relative body ("1") resolves inside procfs
    BindSymlink,
    /// a procfs symlink (/proc/self) or magic-link (/proc/1/cwd) as the mount source
    BindProcLink,
    /// tmpfs populated with links that climb back out onto procfs (directories only)
    TmpfsClimbers,
}

#[derive(Clone, Debug, Serialize, Deserialize)]
pub struct Case {
    pub handle: HKind,
    pub kcfg: Kcfg,
    /// (entry selector, mount kind)
    pub mounts: Vec<(u16, MKind)>,
    /// requests evaluated: (request selector, op, flags selector)
    pub requests: Vec<(u16, POp, u8)>,
}

pub fn strategy() -> impl Strategy<Value = Case> {
    (
        prop_oneof![3 => Just(HKind::New), 2 => Just(HKind::Fsmount), 2 => Just(HKind::OpenTree), 2 => Just(HKind::OpenTreeRecursiveBefore), 2 => Just(HKind::OpenTreeRecursiveAfter), 3 => Just(HKind::PlainOpen), 2 => Just(HKind::CApi)],
        prop_oneof![3 => Just(Kcfg::Full), 3 => Just(Kcfg::NoOpenat2), 1 => Just(Kcfg::NoFsopen), 2 => Just(Kcfg::NoMountApi), 2 => Just(Kcfg::NoOpenat2NoMountApi), 1 => Just(Kcfg::NoOpenat2NoFsopen)],
        vec((any::<u16>(), prop_oneof![2 => Just(MKind::Tmpfs), 2 => Just(MKind::BindForeign), 2 => Just(MKind::BindProcfs), 2 => Just(MKind::BindSymlink), 1 => Just(MKind::BindProcLink), 2 => Just(MKind::TmpfsClimbers)]), 1..=4),
        vec((any::<u16>(), prop_oneof![3 => Just(POp::Open), 3 => Just(POp::OpenFollow), 2 => Just(POp::Readlink)], 0u8..4), 4..=16),
    )
        .prop_map(|(handle, kcfg, mounts, requests)| Case { handle, kcfg, mounts, requests })
}

/// Over-mountable entries, as paths below /proc ({pid}, {tid} substituted), with their type.
pub fn entries(pid: i32, tid: i32) -> Vec<(String, char)> {
    let p = pid.to_string();
    let t = tid.to_string();
    let v: Vec<(String, char)> = vec![
        ("uptime".into(), 'f'),
        ("sys".into(), 'd'),
        ("sys/kernel".into(), 'd'),
        ("sys/kernel/ostype".into(), 'f'),
        ("self".into(), 'l'),
        ("thread-self".into(), 'l'),
        ("mounts".into(), 'l'),
        ("net".into(), 'l'),
        (p.clone(), 'd'),
        (format!("{}/status", p), 'f'),
        (format!("{}/fd", p), 'd'),
        (format!("{}/fd/200", p), 'l'),
        (format!("{}/cwd", p), 'l'),
        (format!("{}/ns", p), 'd'),
        (format!("{}/ns/mnt", p), 'l'),
        (format!("{}/attr", p), 'd'),
        (format!("{}/attr/current", p), 'f'),
        (format!("{}/environ", p), 'f'),
        (format!("{}/mounts", p), 'f'),
        (format!("{}/net", p), 'd'),
        (format!("{}/task", p), 'd'),
        (format!("{}/task/{}", p, t), 'd'),
        (format!("{}/task/{}/status", p, t), 'f'),
        (format!("{}/task/{}/fd", p, t), 'd'),
        (format!("{}/task/{}/cwd", p, t), 'l'),
    ];
    v
}

/// (base, sub-path) requests
pub fn requests(tid: i32) -> Vec<(PBase, String)> {
    let t = tid.to_string();
    vec![
        (PBase::Root, "uptime".into()),
        (PBase::Root, "sys/kernel/ostype".into()),
        (PBase::Root, "sys/kernel".into()),
        (PBase::Root, "self".into()),
        (PBase::Root, "thread-self".into()),
        (PBase::Root, "mounts".into()),
        (PBase::Root, "net".into()),
        (PBase::Root, "self/status".into()),
        (PBase::SelfBase, "status".into()),
        (PBase::SelfBase, "fd".into()),
        (PBase::SelfBase, "fd/200".into()),
        (PBase::SelfBase, "cwd".into()),
        (PBase::SelfBase, "ns/mnt".into()),
        (PBase::SelfBase, "attr/current".into()),
        (PBase::SelfBase, "environ".into()),
        (PBase::SelfBase, "mounts".into()),
        (PBase::SelfBase, format!("task/{}/status", t)),
        (PBase::SelfBase, ".".into()),
        (PBase::ThreadSelf, "status".into()),
        (PBase::ThreadSelf, "fd/200".into()),
        (PBase::ThreadSelf, "cwd".into()),
        (PBase::ThreadSelf, "fd".into()),
    ]
}

/// Host paths (below /proc) of the dentries a request walks through.
pub fn traversed(base: PBase, sub: &str, pid: i32, tid: i32, follow_final: bool) -> Vec<String> {
    let p = pid.to_string();
    let mut out: Vec<String> = vec![];
    let mut cur: Vec<String> = vec![]; // canonical position below /proc
    let mut push_comp = |cur: &mut Vec<String>, out: &mut Vec<String>, c: &str, expand: bool| {
        // spelled dentry
        let mut spelled = cur.clone();
        spelled.push(c.to_string());
        out.push(spelled.join("/"));
        // non-magic links are walked through
        if cur.is_empty() && c == "self" && expand {
            *cur = vec![p.clone()];
            out.push(p.clone());
        } else if cur.is_empty() && c == "thread-self" && expand {
            *cur = vec![p.clone(), "task".into(), tid.to_string()];
            out.push(p.clone());
            out.push(format!("{}/task", p));
            out.push(format!("{}/task/{}", p, tid));
        } else if cur.is_empty() && (c == "mounts" || c == "net") && expand {
            out.push("self".into());
            out.push(p.clone());
            *cur = vec![p.clone(), c.to_string()];
            out.push(format!("{}/{}", p, c));
        } else {
            cur.push(c.to_string());
        }
    };
    match base {
        PBase::Root => {}
        PBase::SelfBase => push_comp(&mut cur, &mut out, "self", true),
        PBase::ThreadSelf => push_comp(&mut cur, &mut out, "thread-self", true),
    }
    let comps: Vec<&str> = sub.split('/').filter(|c| !c.is_empty() && *c != ".").collect();
    for (i, c) in comps.iter().enumerate() {
        let last = i + 1 == comps.len();
        push_comp(&mut cur, &mut out, c, !last || follow_final);
    }
    out.sort();
    out.dedup();
    out
}

#[derive(Clone, Debug, Serialize, Deserialize)]
pub struct ReqRep {
    pub base: PBase,
    pub sub: String,
    pub op: POp,
    pub flags: i32,
    pub out: String,
    pub errno: Option<i32>,
    pub on_procfs: Option<bool>,
    pub matches_pristine: Option<bool>,
    pub pristine: String,
    pub is_mount_source: bool,
    pub body: Option<B>,
    pub pristine_body: Option<B>,
    pub hit: Vec<String>,
    pub panicked: Option<String>,
}

#[derive(Clone, Debug, Serialize, Deserialize)]
pub struct Report {
    pub reqs: Vec<ReqRep>,
    pub mounts: Vec<String>,
    pub mounted: Vec<String>,
    pub visible: bool,
    pub fatal: Option<String>,
    pub handle_desc: String,
}

fn flags_of(sel: u8, op: POp) -> i32 {
    match (op, sel % 4) {
        (POp::Readlink, _) => 0,
        (_, 0) => libc::O_RDONLY,
        (_, 1) => libc::O_PATH,
        (_, 2) => libc::O_PATH | libc::O_NOFOLLOW,
        _ => libc::O_RDONLY | libc::O_NONBLOCK,
    }
}

pub fn child(case: &Case) -> Report {
    let mut rep = Report { reqs: vec![], mounts: vec![], mounted: vec![], visible: false, fatal: None, handle_desc: String::new() };
    if let Err(e) = enter_private_mntns() {
        rep.fatal = Some(e);
        return rep;
    }
    let sb = Sandbox::create("c06");
    let _ = std::os::unix::fs::symlink("1", sb.outside().join("evil"));
    // a stable descriptor whose magic-link can be over-mounted and requested
    {
        let f = openat_raw(libc::AT_FDCWD, b"/etc", libc::O_RDONLY | libc::O_DIRECTORY, 0).unwrap_or(-1);
        let d = unsafe { libc::fcntl(f, libc::F_DUPFD_CLOEXEC, 200) };
        close(f);
        if d != 200 {
            rep.fatal = Some("could not place a descriptor at 200".into());
            return rep;
        }
    }
    let pid = std::process::id() as i32;
    // pristine views made before any over-mount
    let host_pristine = match open_tree_proc(false) {
        Ok(f) => f,
        Err(e) => {
            rep.fatal = Some(format!("open_tree(/proc): {}", errno_name(e)));
            return rep;
        }
    };
    let fsm = fsmount_proc().unwrap_or(-1);
    let rec_before = open_tree_proc(true).unwrap_or(-1);
    let out = with_session(case.kcfg, None, |s| {
        let tid = s.run(|_wg, _st| gettid());
        let mut rep = Report { reqs: vec![], mounts: vec![], mounted: vec![], visible: false, fatal: None, handle_desc: String::new() };
        // --- over-mounts and the harness's own procfs descriptors: made here, on
        // the unfiltered main thread (the kernel configuration applies to the
        // library's thread only)
        let ents = entries(pid, tid);
        let mut plans = vec![];
        for (sel, mk) in &case.mounts {
            let (e, ty) = &ents[pick(*sel, ents.len())];
            let dst = format!("/proc/{}", e);
            if plans.iter().any(|(x, _): &(String, OverMount)| x == e) {
                continue;
            }
            let plan = match (ty, mk) {
                ('d', MKind::Tmpfs) => OverMount::TmpfsOn(dst),
                ('d', MKind::TmpfsClimbers) => OverMount::TmpfsWithClimbers(dst),
                (_, MKind::TmpfsClimbers) => OverMount::BindFileOnLink(sb.outside().join("secret.f").to_string_lossy().to_string(), dst),
                ('d', MKind::BindForeign) | ('d', MKind::BindSymlink) => OverMount::BindDirOn(sb.outside().join("dir").to_string_lossy().to_string(), dst),
                ('d', MKind::BindProcfs) | ('d', MKind::BindProcLink) => OverMount::BindDirOn("/proc/1".to_string(), dst),
                (_, MKind::BindProcfs) => OverMount::BindFileOnLink("/proc/version".to_string(), dst),
                (_, MKind::BindSymlink) => OverMount::BindLinkOnLink(sb.outside().join("evil").to_string_lossy().to_string(), dst),
                (_, MKind::BindProcLink) => OverMount::BindLinkOnLink(if *sel & 1 == 0 { "/proc/self" } else { "/proc/1/cwd" }.to_string(), dst),
                (_, _) => OverMount::BindFileOnLink(sb.outside().join("secret.f").to_string_lossy().to_string(), dst),
            };
            plans.push((e.clone(), plan));
        }
        // sources are identified before anything is covered
        let mount_sources: Vec<Ident> = ["/proc/1", "/proc/version"].iter().filter_map(|p| fstatat(libc::AT_FDCWD, p.as_bytes(), true).ok().map(|s| s.id)).chain([sb.outside().join("dir"), sb.outside().join("secret.f"), sb.outside().join("evil")].iter().filter_map(|p| fstatat(libc::AT_FDCWD, p.as_os_str().as_encoded_bytes(), true).ok().map(|s| s.id))).collect();
        for (e, plan) in plans {
            let log = apply_overmounts(&[plan]);
            if log[0].ends_with(": ok") {
                rep.mounted.push(e);
            }
            rep.mounts.extend(log);
        }
        let rec_after = open_tree_proc(true).unwrap_or(-1);
        let plain = openat_raw(libc::AT_FDCWD, b"/proc", libc::O_PATH | libc::O_DIRECTORY, 0).unwrap_or(-1);
        let otree = open_tree_proc(false).unwrap_or(-1);
        let mounted = rep.mounted.clone();
        let mounts_log = rep.mounts.clone();
        s.run(move |_wg, _st| {
            let mut rep = Report { reqs: vec![], mounts: mounts_log, mounted, visible: false, fatal: None, handle_desc: String::new() };
            // --- the handle
            let (handle, ref_fd, visible): (Option<ProcfsHandle>, i32, bool) = match case.handle {
                HKind::Fsmount => {
                    if fsm < 0 {
                        rep.fatal = Some("fsmount unavailable".into());
                        return rep;
                    }
                    let d = unsafe { libc::fcntl(fsm, libc::F_DUPFD_CLOEXEC, 3) };
                    (guarded(|| ProcfsHandle::try_from_fd(unsafe { OwnedFd::from_raw_fd(d) })).ok(), fsm, false)
                }
                HKind::OpenTree => {
                    (guarded(|| ProcfsHandle::try_from_fd(unsafe { OwnedFd::from_raw_fd(otree) })).ok(), host_pristine, false)
                }
                HKind::OpenTreeRecursiveBefore => {
                    let d = unsafe { libc::fcntl(rec_before, libc::F_DUPFD_CLOEXEC, 3) };
                    (guarded(|| ProcfsHandle::try_from_fd(unsafe { OwnedFd::from_raw_fd(d) })).ok(), host_pristine, false)
                }
                HKind::OpenTreeRecursiveAfter => {
                    (guarded(|| ProcfsHandle::try_from_fd(unsafe { OwnedFd::from_raw_fd(rec_after) })).ok(), host_pristine, true)
                }
                HKind::PlainOpen => {
                    (guarded(|| ProcfsHandle::try_from_fd(unsafe { OwnedFd::from_raw_fd(plain) })).ok(), host_pristine, true)
                }
                HKind::New | HKind::CApi => {
                    // new(): fsopen (private instance) -> open_tree recursive (made now, after the mounts) -> plain open
                    let h = if case.handle == HKind::New { guarded(ProcfsHandle::new).ok() } else { None };
                    let (reff, vis) = match case.kcfg {
                        Kcfg::Full | Kcfg::NoOpenat2 => (-1, false),
                        _ => (host_pristine, true),
                    };
                    (h, reff, vis)
                }
            };
            if handle.is_none() && case.handle != HKind::CApi {
                // say why (re-run the constructor for its error)
                let why = match case.handle {
                    HKind::New => guarded(ProcfsHandle::new).err().map(|o| o.brief()),
                    _ => None,
                };
                rep.fatal = Some(format!("could not create the procfs handle {:?} under {} with mounts {:?}: {:?}", case.handle, case.kcfg.name(), rep.mounts, why));
                return rep;
            }
            rep.visible = visible;
            rep.handle_desc = format!("{:?} under {}", case.handle, case.kcfg.name());
            let reqs = requests(tid);
            for (rsel, op, fsel) in &case.requests {
                let (base, sub) = reqs[pick(*rsel, reqs.len())].clone();
                let mut flags = flags_of(*fsel, *op);
                if case.handle == HKind::CApi && *op == POp::OpenFollow {
                    // the C entry point follows exactly when O_NOFOLLOW is absent
                    flags &= !libc::O_NOFOLLOW;
                }
                let follow_final = *op == POp::OpenFollow && flags & libc::O_NOFOLLOW == 0;
                let tr = traversed(base, &sub, pid, tid, follow_final);
                let hit: Vec<String> = if visible { tr.iter().filter(|t| rep.mounted.contains(t)).cloned().collect() } else { vec![] };
                // pristine reference
                let path = B::new(sub.as_bytes());
                let mut pristine = String::from("n/a");
                let mut pristine_id: Option<Result<Ident, i32>> = None;
                let mut pristine_body = None;
                if ref_fd >= 0 {
                    let bp = base_path(base, tid);
                    if let Ok(bfd) = open_base_fd(ref_fd, &bp) {
                        let comps: Vec<&[u8]> = path.0.split(|&c| c == b'/').collect();
                        if follow_final {
                            let (par, last) = comps.split_at(comps.len() - 1);
                            pristine_id = Some(match pristine_walk2(bfd, par, 0) {
                                Ok(pf) => {
                                    let lastc: &[u8] = if last[0].is_empty() || last[0] == b"." { b"." } else { last[0] };
                                    let r = openat_raw(pf, lastc, flags | libc::O_NOCTTY, 0);
                                    close(pf);
                                    match r {
                                        Ok(fd) => {
                                            let id = fstat(fd).map(|s| s.id);
                                            close(fd);
                                            id
                                        }
                                        Err(e) => Err(e),
                                    }
                                }
                                Err(e) => Err(e),
                            });
                        } else {
                            pristine_id = Some(match pristine_walk(bfd, &comps) {
                                Ok(fd) => {
                                    let st = fstat(fd);
                                    if st.as_ref().map(|s| s.ftype() == libc::S_IFLNK).unwrap_or(false) {
                                        pristine_body = readlinkat(fd, b"").ok().map(B);
                                    }
                                    close(fd);
                                    st.map(|s| s.id)
                                }
                                Err(e) => Err(e),
                            });
                        }
                        close(bfd);
                        pristine = format!("{:?}", pristine_id);
                    }
                }
                let mut r = ReqRep { base, sub: sub.clone(), op: *op, flags, out: String::new(), errno: None, on_procfs: None, matches_pristine: None, pristine, is_mount_source: false, body: None, pristine_body, hit, panicked: None };
                let capi = case.handle == HKind::CApi;
                let mut retfd: Option<OwnedFd> = None;
                let out: Out = match op {
                    POp::Readlink => {
                        if capi {
                            let mut buf = vec![0u8; 4096];
                            let rr = unsafe { pathrs_proc_readlink(base.c(), cpath(&path).as_ptr(), buf.as_mut_ptr() as *mut libc::c_char, buf.len()) };
                            if rr >= 0 {
                                buf.truncate((rr as usize).min(4096));
                                Out::Bytes(B(buf))
                            } else {
                                c_out(rr, false).0
                            }
                        } else {
                            match guarded(|| handle.as_ref().unwrap().readlink(base.rust(), path.as_path())) {
                                Ok(pb) => Out::Bytes(B::new(pb.as_os_str().as_encoded_bytes())),
                                Err(o) => o,
                            }
                        }
                    }
                    _ => {
                        let follow = *op == POp::OpenFollow;
                        if capi {
                            let mut fl = flags;
                            if follow {
                                fl &= !libc::O_NOFOLLOW;
                            } else {
                                fl |= libc::O_NOFOLLOW;
                            }
                            let rr = unsafe { pathrs_proc_open(base.c(), cpath(&path).as_ptr(), fl) };
                            let (o, fd) = c_out(rr, true);
                            retfd = fd.map(|f| unsafe { OwnedFd::from_raw_fd(f) });
                            o
                        } else {
                            let h = handle.as_ref().unwrap();
                            match guarded(|| if follow { h.open_follow(base.rust(), path.as_path(), OpenFlags::from_bits_retain(flags)) } else { h.open(base.rust(), path.as_path(), OpenFlags::from_bits_retain(flags)) }) {
                                Ok(f) => {
                                    let fd = OwnedFd::from(f);
                                    let o = Out::Fd(Obj::of_fd(fd.as_raw_fd()));
                                    retfd = Some(fd);
                                    o
                                }
                                Err(o) => o,
                            }
                        }
                    }
                };
                r.out = out.class();
                match &out {
                    Out::Fd(o) => {
                        r.on_procfs = Some(fstatfs_type(o.fd) == Ok(PROC_SUPER_MAGIC));
                        r.is_mount_source = mount_sources.contains(&o.id());
                        if let Some(pi) = &pristine_id {
                            r.matches_pristine = Some(*pi == Ok(o.id()));
                        }
                    }
                    Out::Bytes(b) => r.body = Some(b.clone()),
                    Out::Err { errno, .. } => r.errno = *errno,
                    Out::Panicked(m) => r.panicked = Some(m.clone()),
                    Out::Unit => {}
                }
                drop(retfd);
                rep.reqs.push(r);
            }
            drop(handle);
            rep
        })
    });
    close(host_pristine);
    close(fsm);
    close(rec_before);
    sb.destroy();
    out
}

fn resolver(k: Kcfg) -> &'static str {
    if k.has_openat2() {
        "openat2"
    } else {
        "restricted-opath"
    }
}

pub fn judge(case: &Case, rep: &Report, stats: &mut Stats) -> Result<(), Fail> {
    if let Some(f) = &rep.fatal {
        return Err(Fail::Harness(f.clone()));
    }
    stats.count("cases", 1);
    stats.class(&format!("handle:{:?}", case.handle));
    stats.class(&format!("resolver:{}", resolver(case.kcfg)));
    stats.class(if rep.visible { "over-mounts:visible-to-handle" } else { "over-mounts:invisible-to-handle" });
    for (i, r) in rep.reqs.iter().enumerate() {
        stats.eval();
        stats.class(&format!("op:{:?}", r.op));
        stats.class(&format!("outcome:{}", r.out));
        // non-trivial: the request walks through something that is over-mounted (visible or not)
        let follow_final = r.op == POp::OpenFollow && r.flags & libc::O_NOFOLLOW == 0;
        let walks: Vec<String> = traversed(r.base, &r.sub, 0, 0, follow_final);
        let _ = walks;
        let touches = !r.hit.is_empty() || rep.mounted.iter().any(|m| {
            // same computation as the child, with the real ids substituted in the mounted names
            m.ends_with(&r.sub) || r.sub.split('/').any(|c| m.ends_with(c))
        });
        if touches {
            stats.nontrivial_key(&format!("{:?}|{}|{:?}|{:x}|{:?}|{:?}|{:?}", r.base, r.sub, r.op, r.flags, case.handle, case.kcfg, rep.mounted));
            stats.sample(|| json!({"handle": rep.handle_desc, "mounts": rep.mounts, "call": format!("{:?}({:?}, \"{}\", 0x{:x})", r.op, r.base, r.sub, r.flags), "visible_overmount_on_the_way": r.hit, "outcome": r.out, "matches_pristine": r.matches_pristine}));
            stats.class_sample(&format!("{:?}:{}:{}", r.op, if r.hit.is_empty() { "clear" } else { "hit" }, r.out), || json!({"handle": rep.handle_desc, "mounts": rep.mounts, "call": format!("{:?}({:?}, \"{}\")", r.op, r.base, r.sub), "outcome": r.out}));
        }
        let mk = |sig: String, msg: String| -> Fail {
            let mut single = case.clone();
            single.requests = vec![case.requests[i].clone()];
            Fail::Violation(Violation {
                check: "overmount".into(),
                signature: sig,
                message: format!("{:?}({:?}, \"{}\", 0x{:x}) on {} ({} resolver)\n  over-mounts: {:?}\n  visible over-mounts on the way: {:?}\n  pristine lookup: {}\n  result: {} errno={:?} on_procfs={:?} matches_pristine={:?} body={:?}\n  {}", r.op, r.base, r.sub, r.flags, rep.handle_desc, resolver(case.kcfg), rep.mounts, r.hit, r.pristine, r.out, r.errno.map(errno_name), r.on_procfs, r.matches_pristine, r.body, msg),
                case: serde_json::to_value(&single).unwrap(),
            })
        };
        let opn = format!("{:?}", r.op);
        if let Some(m) = &r.panicked {
            return Err(mk(format!("panic:{}", opn), format!("library panicked: {}", m)));
        }
        let ok = r.out == "Ok";
        // (1) always: never an over-mount source; non-following results are on procfs and genuine
        if ok && r.is_mount_source {
            return Err(mk(format!("returned-overmount-source:{}:{:?}", opn, case.handle), "the call returned the object that was mounted over the procfs entry".into()));
        }
        if ok && r.matches_pristine == Some(false) {
            return Err(mk(format!("not-the-genuine-object:{}:{:?}", opn, case.handle), "the returned object differs from the same lookup on a pristine view of the same procfs".into()));
        }
        if ok && !follow_final && r.on_procfs == Some(false) {
            return Err(mk(format!("not-on-procfs:{}", opn), "a non-following call returned an object that is not on procfs".into()));
        }
        if let (Some(a), Some(b)) = (&r.body, &r.pristine_body) {
            if a != b {
                return Err(mk(format!("link-body:{}", opn), format!("link body differs from the pristine one: {:?}", b)));
            }
        }
        // (2) a visible over-mount on the way => EXDEV
        if !r.hit.is_empty() {
            if ok {
                // genuine object in spite of a visible over-mount: the traversed-set model is too coarse
                stats.count("model_disagreements_hit_but_genuine", 1);
            } else if r.errno != Some(libc::EXDEV) && r.errno != Some(libc::EAGAIN) {
                return Err(mk(format!("overmount-wrong-errno:{}:{}", opn, r.out), "a visible over-mount on the way must turn the call into EXDEV".into()));
            } else {
                stats.class("over-mount-detected-EXDEV");
            }
            continue;
        }
        // (3) nothing visible on the way: exactly the pristine behaviour
        if !ok && r.pristine.starts_with("Some(Ok(") && r.errno != Some(libc::EAGAIN) {
            // the pristine lookup succeeds, the library fails
            // (ELOOP for a non-following open of a link without O_PATH is the forced O_NOFOLLOW at work)
            let link_refusal = r.errno == Some(libc::ELOOP) && r.op != POp::OpenFollow && r.flags & libc::O_PATH == 0;
            let not_a_link = r.op == POp::Readlink && matches!(r.errno, Some(libc::ENOENT) | Some(libc::EINVAL));
            if !link_refusal && !not_a_link {
                return Err(mk(format!("spurious-failure:{}:{}:{}", opn, r.out, if rep.visible { "visible" } else { "private" }), "no visible over-mount is on the way, the pristine lookup succeeds, but the library fails".into()));
            }
        }
    }
    Ok(())
}

// ---------------------------------------------------------------------------
// Racing mounts: one over-mount that appears / appears-and-goes / goes while a
// non-following lookup is running, at every syscall boundary of that lookup.

#[derive(Clone, Copy, Debug, PartialEq, Eq, Hash, Serialize, Deserialize)]
pub enum RaceMode {
    /// the mount appears just before syscall k and stays
    Appear,
    /// appears before syscall k, is removed before syscall k+1
    Blink,
    /// is in place from the start and removed just before syscall k
    Vanish,
}

#[derive(Clone, Debug, Serialize, Deserialize)]
pub struct RaceCase {
    pub handle: HKind,
    pub kcfg: Kcfg,
    /// request selector, op (Open / Readlink), flags selector
    pub request: (u16, POp, u8),
    /// which dentry on the way is covered (index into the traversed set; the
    /// high bit picks an unrelated entry instead)
    pub target: u16,
    pub mkind: MKind,
    /// None: every placement of every mode; Some: exactly this one (replay of a shrunk failure)
    pub only: Option<(RaceMode, usize)>,
}

pub fn race_strategy() -> impl Strategy<Value = RaceCase> {
    (
        prop_oneof![3 => Just(HKind::PlainOpen), 3 => Just(HKind::New), 2 => Just(HKind::CApi), 1 => Just(HKind::Fsmount), 1 => Just(HKind::OpenTree), 1 => Just(HKind::OpenTreeRecursiveBefore)],
        prop_oneof![2 => Just(Kcfg::Full), 2 => Just(Kcfg::NoOpenat2), 1 => Just(Kcfg::NoFsopen), 3 => Just(Kcfg::NoMountApi), 4 => Just(Kcfg::NoOpenat2NoMountApi), 1 => Just(Kcfg::NoOpenat2NoFsopen)],
        (any::<u16>(), prop_oneof![3 => Just(POp::Open), 1 => Just(POp::Readlink)], 0u8..4),
        any::<u16>(),
        prop_oneof![2 => Just(MKind::Tmpfs), 2 => Just(MKind::BindForeign), 2 => Just(MKind::BindProcfs), 2 => Just(MKind::BindSymlink), 1 => Just(MKind::BindProcLink), 2 => Just(MKind::TmpfsClimbers)],
    )
        .prop_map(|(handle, kcfg, request, target, mkind)| RaceCase { handle, kcfg, request, target, mkind, only: None })
}

#[derive(Clone, Debug, Serialize, Deserialize)]
pub struct RaceRun {
    pub mode: RaceMode,
    pub k: usize,
    pub out: String,
    pub errno: Option<i32>,
    pub genuine: Option<bool>,
    pub is_mount_source: bool,
    pub on_procfs: Option<bool>,
    pub body: Option<B>,
    pub panicked: Option<String>,
    pub mount_log: Vec<String>,
    pub applied: bool,
}

#[derive(Clone, Debug, Serialize, Deserialize)]
pub struct RaceReport {
    pub fatal: Option<String>,
    pub handle_desc: String,
    pub call: String,
    pub target: String,
    pub plan: String,
    pub on_the_way: bool,
    pub visible: bool,
    pub baseline: String,
    pub baseline_errno: Option<i32>,
    pub baseline_body: Option<B>,
    pub n_syscalls: usize,
    pub trace: Vec<String>,
    pub runs: Vec<RaceRun>,
}

struct RaceState {
    plan: OverMount,
    dst: String,
    mount_at: Option<usize>,
    umount_at: Option<usize>,
    mounted: bool,
    applied: bool,
    log: Vec<String>,
}

fn umount_top(dst: &str) -> Result<(), i32> {
    let d = CString::new(dst).unwrap();
    let r = unsafe { libc::umount2(d.as_ptr(), libc::MNT_DETACH | libc::UMOUNT_NOFOLLOW) };
    if r == 0 {
        Ok(())
    } else {
        Err(errno())
    }
}

impl RaceState {
    fn mount(&mut self) {
        let l = apply_overmounts(&[self.plan.clone()]);
        if l[0].ends_with(": ok") {
            self.mounted = true;
            self.applied = true;
        }
        self.log.extend(l);
    }
    fn umount(&mut self) {
        if self.mounted {
            match umount_top(&self.dst) {
                Ok(()) => self.mounted = false,
                Err(e) => self.log.push(format!("umount {}: {}", self.dst, errno_name(e))),
            }
        }
    }
}

/// One request through the handle (Rust API) or the C API.
fn exec_req(handle: Option<&ProcfsHandle>, base: PBase, path: &B, op: POp, flags: i32) -> (Out, Option<OwnedFd>) {
    let capi = handle.is_none();
    let mut retfd = None;
    let out = match op {
        POp::Readlink => {
            if capi {
                let mut buf = vec![0u8; 4096];
                let rr = unsafe { pathrs_proc_readlink(base.c(), cpath(path).as_ptr(), buf.as_mut_ptr() as *mut libc::c_char, buf.len()) };
                if rr >= 0 {
                    buf.truncate((rr as usize).min(4096));
                    Out::Bytes(B(buf))
                } else {
                    c_out(rr, false).0
                }
            } else {
                match guarded(|| handle.unwrap().readlink(base.rust(), path.as_path())) {
                    Ok(pb) => Out::Bytes(B::new(pb.as_os_str().as_encoded_bytes())),
                    Err(o) => o,
                }
            }
        }
        _ => {
            let follow = op == POp::OpenFollow;
            if capi {
                let fl = if follow { flags & !libc::O_NOFOLLOW } else { flags | libc::O_NOFOLLOW };
                let rr = unsafe { pathrs_proc_open(base.c(), cpath(path).as_ptr(), fl) };
                let (o, fd) = c_out(rr, true);
                retfd = fd.map(|f| unsafe { OwnedFd::from_raw_fd(f) });
                o
            } else {
                let h = handle.unwrap();
                match guarded(|| if follow { h.open_follow(base.rust(), path.as_path(), OpenFlags::from_bits_retain(flags)) } else { h.open(base.rust(), path.as_path(), OpenFlags::from_bits_retain(flags)) }) {
                    Ok(f) => {
                        let fd = OwnedFd::from(f);
                        let o = Out::Fd(Obj::of_fd(fd.as_raw_fd()));
                        retfd = Some(fd);
                        o
                    }
                    Err(o) => o,
                }
            }
        }
    };
    (out, retfd)
}

pub fn race_child(case: &RaceCase) -> RaceReport {
    let mut rep = RaceReport { fatal: None, handle_desc: String::new(), call: String::new(), target: String::new(), plan: String::new(), on_the_way: false, visible: false, baseline: String::new(), baseline_errno: None, baseline_body: None, n_syscalls: 0, trace: vec![], runs: vec![] };
    if let Err(e) = enter_private_mntns() {
        rep.fatal = Some(e);
        return rep;
    }
    let sb = Sandbox::create("c06r");
    let _ = std::os::unix::fs::symlink("1", sb.outside().join("evil"));
    {
        let f = openat_raw(libc::AT_FDCWD, b"/etc", libc::O_RDONLY | libc::O_DIRECTORY, 0).unwrap_or(-1);
        let d = unsafe { libc::fcntl(f, libc::F_DUPFD_CLOEXEC, 200) };
        close(f);
        if d != 200 {
            rep.fatal = Some("could not place a descriptor at 200".into());
            return rep;
        }
    }
    let pid = std::process::id() as i32;
    let fsm = fsmount_proc().unwrap_or(-1);
    let rec_before = open_tree_proc(true).unwrap_or(-1);
    let otree = open_tree_proc(false).unwrap_or(-1);
    let plain = openat_raw(libc::AT_FDCWD, b"/proc", libc::O_PATH | libc::O_DIRECTORY, 0).unwrap_or(-1);
    let state = std::sync::Arc::new(std::sync::Mutex::new(RaceState { plan: OverMount::TmpfsOn(String::new()), dst: String::new(), mount_at: None, umount_at: None, mounted: false, applied: false, log: vec![] }));
    let st2 = state.clone();
    let hook: Hook = Box::new(move |sys: &Sys, _c: &mut CallRec| {
        let mut st = st2.lock().unwrap();
        if st.umount_at == Some(sys.idx) {
            st.umount();
        }
        if st.mount_at == Some(sys.idx) {
            st.mount();
        }
        Action::Continue
    });
    // the supervisor must not depend on /proc while entries of it are covered: no descriptor classification
    let policy = Policy { observe: true, kinds: false, audit_fds: false, max_syscalls: 20_000, hook: Some(hook), ..Policy::default() };
    let out = with_session(case.kcfg, Some(policy), |s| {
        let tid = s.run(|_wg, _st| gettid());
        // --- the request
        let reqs = requests(tid);
        let (rsel, op, fsel) = case.request;
        let (base, sub) = reqs[pick(rsel, reqs.len())].clone();
        // keep the call one that does work: readlink only on links, plain opens of links become O_PATH ones
        let last = sub.rsplit('/').next().unwrap_or("");
        let is_link = matches!(last, "self" | "thread-self" | "cwd" | "200" | "mnt") || (base == PBase::Root && matches!(last, "mounts" | "net"));
        let op = if op == POp::Readlink && !is_link { POp::Open } else { op };
        let mut flags = flags_of(fsel, op);
        if op == POp::Open && is_link {
            flags = libc::O_PATH | (flags & libc::O_NOFOLLOW);
        }
        let path = B::new(sub.as_bytes());
        rep.call = format!("{:?}({:?}, \"{}\", 0x{:x})", op, base, sub, flags);
        // --- the racing mount: a dentry on the way of the request (mostly), or an unrelated entry
        let tr = traversed(base, &sub, pid, tid, false);
        let ents = entries(pid, tid);
        let (target, on_the_way) = if case.target & 0x8000 == 0 && !tr.is_empty() {
            (tr[pick(case.target << 1, tr.len())].clone(), true)
        } else {
            let e = ents[pick(case.target << 1, ents.len())].0.clone();
            let on = tr.contains(&e);
            (e, on)
        };
        let dst = format!("/proc/{}", target);
        let is_dir = fstatat(libc::AT_FDCWD, dst.as_bytes(), true).map(|s| s.ftype() == libc::S_IFDIR).unwrap_or(false);
        let plan = match (is_dir, case.mkind) {
            (true, MKind::Tmpfs) => OverMount::TmpfsOn(dst.clone()),
            (true, MKind::TmpfsClimbers) => OverMount::TmpfsWithClimbers(dst.clone()),
            (false, MKind::TmpfsClimbers) => OverMount::BindFileOnLink(sb.outside().join("secret.f").to_string_lossy().to_string(), dst.clone()),
            (true, MKind::BindForeign) | (true, MKind::BindSymlink) => OverMount::BindDirOn(sb.outside().join("dir").to_string_lossy().to_string(), dst.clone()),
            (true, MKind::BindProcfs) | (true, MKind::BindProcLink) => OverMount::BindDirOn("/proc/1".to_string(), dst.clone()),
            (false, MKind::BindProcfs) => OverMount::BindFileOnLink("/proc/version".to_string(), dst.clone()),
            (false, MKind::BindSymlink) => OverMount::BindLinkOnLink(sb.outside().join("evil").to_string_lossy().to_string(), dst.clone()),
            (false, MKind::BindProcLink) => OverMount::BindLinkOnLink(if case.target & 1 == 0 { "/proc/self" } else { "/proc/1/cwd" }.to_string(), dst.clone()),
            (false, _) => OverMount::BindFileOnLink(sb.outside().join("secret.f").to_string_lossy().to_string(), dst.clone()),
        };
        rep.target = target;
        rep.plan = format!("{:?}", plan);
        rep.on_the_way = on_the_way;
        let mount_sources: Vec<Ident> = ["/proc/1", "/proc/version"].iter().filter_map(|p| fstatat(libc::AT_FDCWD, p.as_bytes(), true).ok().map(|s| s.id)).chain([sb.outside().join("dir"), sb.outside().join("secret.f"), sb.outside().join("evil")].iter().filter_map(|p| fstatat(libc::AT_FDCWD, p.as_os_str().as_encoded_bytes(), true).ok().map(|s| s.id))).collect();
        {
            let mut st = state.lock().unwrap();
            st.plan = plan;
            st.dst = dst;
        }
        // --- the handle (made while nothing is covered)
        let capi = case.handle == HKind::CApi;
        let visible = match case.handle {
            HKind::PlainOpen => true,
            HKind::New | HKind::CApi => !matches!(case.kcfg, Kcfg::Full | Kcfg::NoOpenat2 | Kcfg::NoFsopen | Kcfg::NoOpenat2NoFsopen),
            _ => false,
        };
        rep.visible = visible;
        rep.handle_desc = format!("{:?} under {}", case.handle, case.kcfg.name());
        let made: Result<(), String> = s.run(|_wg, st| {
            let h = match case.handle {
                HKind::Fsmount => {
                    if fsm < 0 {
                        return Err("fsmount unavailable".to_string());
                    }
                    let d = unsafe { libc::fcntl(fsm, libc::F_DUPFD_CLOEXEC, 3) };
                    guarded(|| ProcfsHandle::try_from_fd(unsafe { OwnedFd::from_raw_fd(d) }))
                }
                HKind::OpenTree => guarded(|| ProcfsHandle::try_from_fd(unsafe { OwnedFd::from_raw_fd(otree) })),
                HKind::OpenTreeRecursiveBefore | HKind::OpenTreeRecursiveAfter => guarded(|| ProcfsHandle::try_from_fd(unsafe { OwnedFd::from_raw_fd(rec_before) })),
                HKind::PlainOpen => guarded(|| ProcfsHandle::try_from_fd(unsafe { OwnedFd::from_raw_fd(plain) })),
                HKind::New => guarded(ProcfsHandle::new),
                HKind::CApi => return Ok(()),
            };
            match h {
                Ok(h) => {
                    st.procfs = Some(h);
                    Ok(())
                }
                Err(o) => Err(format!("could not create the procfs handle {:?}: {}", case.handle, o.brief())),
            }
        });
        if let Err(e) = made {
            rep.fatal = Some(e);
            return rep;
        }
        // --- baseline: the same call with nothing mounted (twice: the first warms the library's lazies)
        let mut base_fd: Option<OwnedFd> = None;
        let mut base_out = Out::Unit;
        for round in 0..2 {
            let (o, fd) = s.run(|wg, st| {
                wg.enter(1 + round);
                let r = exec_req(if capi { None } else { st.procfs.as_ref() }, base, &path, op, flags);
                wg.exit();
                r
            });
            base_out = o;
            base_fd = fd; // kept open: pins the procfs inode, so (dev,ino) stays comparable
        }
        let calls = s.take_calls();
        let bc = calls.iter().find(|c| c.id == 2);
        rep.n_syscalls = bc.map(|c| c.n_syscalls).unwrap_or(0);
        rep.trace = bc.map(|c| c.trace.iter().map(|t| t.short()).collect()).unwrap_or_default();
        rep.baseline = base_out.class();
        match &base_out {
            Out::Err { errno, .. } => rep.baseline_errno = *errno,
            Out::Bytes(b) => rep.baseline_body = Some(b.clone()),
            Out::Panicked(m) => {
                rep.fatal = Some(format!("baseline call panicked: {}", m));
                return rep;
            }
            _ => {}
        }
        // A private instance made by the library itself may be a fresh one per call
        // (the unmasked retry for entries outside subset=pid mounts a new procfs):
        // (dev,ino) is comparable only when the harness knows the instance.
        let own_instance = !visible && matches!(case.handle, HKind::New | HKind::CApi);
        let genuine: Option<Ident> = match &base_out {
            Out::Fd(o) if !own_instance => Some(o.id()),
            _ => None,
        };
        // --- placements
        let n = rep.n_syscalls;
        let mut placements: Vec<(RaceMode, usize)> = vec![];
        match case.only {
            Some(p) => placements.push(p),
            None => {
                for k in 0..n {
                    placements.push((RaceMode::Appear, k));
                    placements.push((RaceMode::Blink, k));
                    placements.push((RaceMode::Vanish, k));
                }
                // the two static ends, as a cross-check of the machinery
                placements.push((RaceMode::Vanish, usize::MAX));
            }
        }
        for (i, (mode, k)) in placements.into_iter().enumerate() {
            {
                let mut st = state.lock().unwrap();
                st.applied = false;
                st.log.clear();
                st.mount_at = None;
                st.umount_at = None;
                match mode {
                    RaceMode::Appear => st.mount_at = Some(k),
                    RaceMode::Blink => {
                        st.mount_at = Some(k);
                        st.umount_at = Some(k + 1);
                    }
                    RaceMode::Vanish => {
                        st.mount();
                        st.umount_at = Some(k);
                    }
                }
            }
            let (o, fd) = s.run(|wg, st| {
                wg.enter(10 + i as u32);
                let r = exec_req(if capi { None } else { st.procfs.as_ref() }, base, &path, op, flags);
                wg.exit();
                r
            });
            let (log, applied, stuck) = {
                let mut st = state.lock().unwrap();
                st.umount();
                (st.log.clone(), st.applied, st.mounted)
            };
            if stuck {
                rep.fatal = Some(format!("could not remove the racing mount again: {:?}", log));
                return rep;
            }
            let _ = s.take_calls();
            let mut r = RaceRun { mode, k, out: o.class(), errno: None, genuine: None, is_mount_source: false, on_procfs: None, body: None, panicked: None, mount_log: log, applied };
            match &o {
                Out::Fd(ob) => {
                    r.genuine = genuine.map(|g| g == ob.id());
                    r.is_mount_source = mount_sources.contains(&ob.id());
                    r.on_procfs = Some(fstatfs_type(ob.fd) == Ok(PROC_SUPER_MAGIC));
                }
                Out::Bytes(b) => r.body = Some(b.clone()),
                Out::Err { errno, .. } => r.errno = *errno,
                Out::Panicked(m) => r.panicked = Some(m.clone()),
                Out::Unit => {}
            }
            drop(fd);
            rep.runs.push(r);
        }
        drop(base_fd);
        s.run(|_wg, st| st.procfs = None);
        rep
    });
    {
        let mut st = state.lock().unwrap();
        st.umount();
    }
    close(fsm);
    sb.destroy();
    out
}

pub fn race_judge(case: &RaceCase, rep: &RaceReport, stats: &mut Stats) -> Result<(), Fail> {
    if let Some(f) = &rep.fatal {
        return Err(Fail::Harness(f.clone()));
    }
    stats.count("racing_cases", 1);
    stats.class(&format!("race-handle:{:?}", case.handle));
    stats.class(&format!("race-resolver:{}", resolver(case.kcfg)));
    stats.class(if rep.visible { "race:host-procfs-handle" } else { "race:private-handle" });
    stats.class(if rep.on_the_way { "race:mount-on-the-way" } else { "race:mount-elsewhere" });
    stats.count("racing_placement_points", rep.n_syscalls as u64);
    for r in &rep.runs {
        stats.eval();
        stats.class(&format!("race:{:?}:{}", r.mode, r.out));
        if r.applied && rep.on_the_way {
            stats.nontrivial_key(&format!("race|{}|{:?}|{:?}|{}|{:?}|{}", rep.call, case.handle, case.kcfg, rep.plan, r.mode, r.k));
            stats.class_sample(&format!("race:{:?}:{}:{}", r.mode, if rep.visible { "host" } else { "private" }, r.out), || json!({"handle": rep.handle_desc, "call": rep.call, "racing_mount": rep.plan, "mode": format!("{:?}", r.mode), "before_syscall": r.k, "of": rep.n_syscalls, "syscall": rep.trace.get(r.k), "outcome": r.out, "genuine": r.genuine}));
        }
        let mk = |sig: String, msg: String| -> Fail {
            let mut single = case.clone();
            single.only = Some((r.mode, r.k));
            Fail::Violation(Violation {
                check: "racing-mount".into(),
                signature: sig,
                message: format!("{} on {} ({} resolver)\n  racing mount: {} ({:?} at syscall {} of {}: {:?}; mount log {:?})\n  un-raced result: {} errno={:?}\n  raced result: {} errno={:?} genuine={:?} on_procfs={:?} mount_source={} body={:?}\n  {}", rep.call, rep.handle_desc, resolver(case.kcfg), rep.plan, r.mode, r.k, rep.n_syscalls, rep.trace.get(r.k), r.mount_log, rep.baseline, rep.baseline_errno.map(errno_name), r.out, r.errno.map(errno_name), r.genuine, r.on_procfs, r.is_mount_source, r.body, msg),
                case: serde_json::to_value(&single).unwrap(),
            })
        };
        if let Some(m) = &r.panicked {
            return Err(mk(format!("race-panic:{:?}", case.request.1), format!("library panicked: {}", m)));
        }
        let ok = r.out == "Ok";
        if ok && r.is_mount_source {
            return Err(mk(format!("race-returned-overmount-source:{:?}:{:?}", case.request.1, r.mode), "the call returned the object that was mounted over the procfs entry".into()));
        }
        if ok && r.genuine == Some(false) {
            return Err(mk(format!("race-not-the-genuine-object:{:?}:{:?}", case.request.1, r.mode), "the returned object differs from what the same call returns with nothing mounted".into()));
        }
        if ok && r.on_procfs == Some(false) {
            return Err(mk(format!("race-not-on-procfs:{:?}:{:?}", case.request.1, r.mode), "a non-following call returned an object that is not on procfs".into()));
        }
        if let (Some(a), Some(b)) = (&r.body, &rep.baseline_body) {
            if a != b {
                return Err(mk(format!("race-link-body:{:?}", r.mode), format!("link body differs from the un-raced one: {:?}", b)));
            }
        }
        let same_as_baseline = r.out == rep.baseline && (ok || r.errno == rep.baseline_errno);
        if !rep.visible || !rep.on_the_way {
            // a private procfs instance (or a mount that is not on the way): unaffected
            if !same_as_baseline && r.errno != Some(libc::EAGAIN) {
                return Err(mk(format!("race-affected:{}:{:?}:{}", if rep.visible { "elsewhere" } else { "private" }, r.mode, r.out), "the mount cannot be seen by this lookup, yet the outcome differs from the un-raced call".into()));
            }
        } else if !same_as_baseline && r.errno == Some(libc::ELOOP) && rep.plan.starts_with("BindLinkOnLink") {
            // the mount source is itself a symlink: a final open that meets it with the
            // forced O_NOFOLLOW is refused by the kernel (ELOOP) before the library can
            // look at the mount id; nothing is returned, which is all the property asks
            // of a mount that appears mid-lookup
            stats.class("race:mounted-symlink-refused-ELOOP");
        } else if !same_as_baseline && r.errno != Some(libc::EXDEV) && r.errno != Some(libc::EAGAIN) {
            return Err(mk(format!("race-wrong-errno:{:?}:{}", r.mode, r.out), "a racing over-mount may only turn the call into EXDEV".into()));
        } else if r.errno == Some(libc::EXDEV) {
            stats.class("race:detected-EXDEV");
        }
    }
    Ok(())
}

pub fn race_check_once(case: &RaceCase, stats: &mut Stats) -> Result<(), Fail> {
    match run_in_child(60.0, || race_child(case)) {
        ChildOut::Ok(rep) => race_judge(case, &rep, stats),
        ChildOut::Crashed { sig } => Err(Fail::Violation(Violation { check: "racing-mount".into(), signature: format!("race-crash:sig{}", sig), message: format!("child died with signal {}", sig), case: serde_json::to_value(case).unwrap() })),
        ChildOut::Exit { code, stderr_hint } => Err(Fail::Harness(format!("child exit {}: {}", code, stderr_hint))),
        ChildOut::Timeout => Err(Fail::Harness("child timed out".into())),
    }
}

pub fn race_check(case: &RaceCase, stats: &mut Stats) -> Result<(), Fail> {
    stable(&race_check_once, case, stats, 2)
}

pub fn check_once(case: &Case, stats: &mut Stats) -> Result<(), Fail> {
    match run_in_child(60.0, || child(case)) {
        ChildOut::Ok(rep) => judge(case, &rep, stats),
        ChildOut::Crashed { sig } => Err(Fail::Violation(Violation { check: "overmount".into(), signature: format!("crash:sig{}", sig), message: format!("child died with signal {}", sig), case: serde_json::to_value(case).unwrap() })),
        ChildOut::Exit { code, stderr_hint } => Err(Fail::Harness(format!("child exit {}: {}", code, stderr_hint))),
        ChildOut::Timeout => Err(Fail::Harness("child timed out".into())),
    }
}

pub fn check(case: &Case, stats: &mut Stats) -> Result<(), Fail> {
    stable(&check_once, case, stats, 2)
}

fn run_lane(ctx: &Ctx, lr: &mut LaneResult) {
    search(ctx, lr, "overmount", ctx.tier.pick(4800, 48000), strategy(), &check);
    search_opts(ctx, lr, "racing-mount", ctx.tier.pick(960, 9600), race_strategy(), &race_check, 30);
}

fn replay(_ctx: &Ctx, check_name: &str, case: &Value) -> Result<(), Fail> {
    if check_name == "racing-mount" {
        let case: RaceCase = serde_json::from_value(case.clone()).map_err(|e| Fail::Harness(format!("bad case: {}", e)))?;
        let mut s = Stats::default();
        return race_check(&case, &mut s);
    }
    let case: Case = serde_json::from_value(case.clone()).map_err(|e| Fail::Harness(format!("bad case: {}", e)))?;
    let mut s = Stats::default();
    check(&case, &mut s)
}

pub const PROP: Prop = Prop {
    id: "C06",
    level: "exploration",
    rule: "in a private mount namespace: 1-4 over-mounts {tmpfs, tmpfs populated with links that climb back out onto procfs at another process's entry, bind of a foreign file/dir, bind of another procfs file/dir, bind of a foreign symlink whose body resolves inside procfs, bind of a procfs symlink or magic-link itself} on entries drawn from {uptime, sys, sys/kernel, sys/kernel/ostype, self, thread-self, mounts, net, <pid>, <pid>/status, fd, fd/200 (magic-link), cwd, ns, ns/mnt, attr, attr/current, environ, mounts, net, task, task/<tid>, task/<tid>/status|fd|cwd} (links are covered through an O_PATH|O_NOFOLLOW descriptor) x handle kind {ProcfsHandle::new(), try_from_fd of fsopen+fsmount / open_tree clone / recursive clone made before or after the mounts / plain open(\"/proc\"), C API global} x six kernel configurations (openat2 / fsopen / open_tree -> ENOSYS) x 4-16 calls {open, open_follow, readlink} x base x sub-path x flags. The harness knows which handle can see the mounts (it made both) and which dentries each request walks through (self, thread-self, net, mounts expanded). Oracle: a successful result is never an over-mount source, equals by (dev,ino)/link body the same lookup on a pristine descriptor of the same procfs instance made before the mounts, and non-following results are on procfs; a visible over-mount on the way => EXDEV; otherwise the call behaves exactly as on the pristine view. non-trivial = the request walks through an over-mounted entry; distinct by (request, handle, kcfg, mounted set). Second driver \"racing-mount\": one non-following call (open / readlink) x handle kind x kernel configuration x one over-mount on a dentry the call walks through (or, 1 in 2, an unrelated entry); the syscall gate counts the N system calls the un-raced call makes and the case is re-run 3N+1 times: the mount appears just before syscall k and stays / appears before k and is removed before k+1 / is in place from the start and removed before k, for every k. Oracle: a successful result is the object the un-raced call returns ((dev,ino) while that descriptor is held open; link body), on procfs, never the mount source; handles on a private instance and mounts off the way: outcome identical to the un-raced call; host-procfs handles: identical or EXDEV. non-trivial there = the mount was applied and is on the way; distinct by (call, handle, kcfg, mount, mode, k)",
    assumptions: &["kernel reports mount ids (6.18)", "racing mounts are placed at the boundaries between the library's system calls (every one of them, enumerated); a mount that lands while the kernel is inside one openat2 walk is not controllable from user space", "identity comparison for ProcfsHandle::new()/C API is only possible when they fall back to the host procfs"],
    lanes: |_| 16,
    run_lane,
    replay,
    extra: None,
    exhaustive: false,
};
