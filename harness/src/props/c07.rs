//! C07 — procfs lookups stay inside procfs and follow only the requested final link.

use crate::capi::*;
use crate::driver::*;
use crate::exec::*;
use crate::gate::*;
use crate::gen::pick;
use crate::util::*;
use crate::workload::PBase;
use pathrs::flags::OpenFlags;
use pathrs::procfs::ProcfsHandle;
use proptest::collection::vec;
use proptest::prelude::*;
use serde::{Deserialize, Serialize};
use serde_json::{json, Value};
use std::os::unix::io::{AsRawFd, FromRawFd, OwnedFd};

#[derive(Clone, Copy, Debug, PartialEq, Eq, Hash, Serialize, Deserialize)]
pub enum HandleKind {
    /// ProcfsHandle::new()
    New,
    /// try_from_fd(fsopen+fsmount made by the harness)
    Fsmount,
    /// try_from_fd(open_tree(/proc, CLONE))
    OpenTree,
    /// try_from_fd(open("/proc"))
    PlainOpen,
    /// the C API's global handle
    CApi,
}

#[derive(Clone, Copy, Debug, PartialEq, Eq, Hash, Serialize, Deserialize)]
pub enum POp {
    Open,
    OpenFollow,
    Readlink,
}

#[derive(Clone, Debug, PartialEq, Eq, Hash, Serialize, Deserialize)]
pub struct PStep {
    pub base: PBase,
    /// selector into the live enumeration of the base
    pub sel: u16,
    /// 0: plain; others: decorations / hostile components
    pub deco: u8,
    pub flags: i32,
    pub op: POp,
}

#[derive(Clone, Debug, Serialize, Deserialize)]
pub struct Case {
    pub handle: HandleKind,
    pub steps: Vec<PStep>,
}

pub fn pflags() -> impl Strategy<Value = i32> {
    prop_oneof![
        4 => Just(libc::O_RDONLY),
        3 => Just(libc::O_PATH),
        2 => Just(libc::O_RDONLY | libc::O_DIRECTORY),
        2 => Just(libc::O_PATH | libc::O_NOFOLLOW),
        1 => Just(libc::O_PATH | libc::O_DIRECTORY),
        1 => Just(libc::O_RDONLY | libc::O_NOFOLLOW),
        1 => Just(libc::O_RDONLY | libc::O_CLOEXEC | libc::O_NONBLOCK),
        1 => Just(libc::O_WRONLY | libc::O_NONBLOCK),
        1 => Just(libc::O_RDWR | libc::O_NONBLOCK),
        // creation flags must be refused
        1 => Just(libc::O_RDONLY | libc::O_CREAT),
        1 => Just(libc::O_WRONLY | libc::O_CREAT | libc::O_EXCL),
        1 => Just(libc::O_RDWR | libc::O_TMPFILE),
        1 => Just(libc::O_RDONLY | libc::O_EXCL),
        // the O_TMPFILE bit without O_DIRECTORY: the kernel rejects it, but a trailing
        // '/' makes the library add O_DIRECTORY, which completes O_TMPFILE
        1 => Just(libc::O_RDWR | (libc::O_TMPFILE & !libc::O_DIRECTORY)),
        // creation flags together with O_PATH: the kernel would ignore them, the API refuses them
        1 => Just(libc::O_PATH | libc::O_CREAT),
        1 => Just(libc::O_PATH | libc::O_EXCL),
        1 => Just(libc::O_PATH | libc::O_TMPFILE),
        1 => Just(libc::O_PATH | libc::O_CREAT | libc::O_EXCL | libc::O_NOFOLLOW),
        1 => Just(libc::O_PATH | (libc::O_TMPFILE & !libc::O_DIRECTORY)),
    ]
}

pub fn pstep() -> impl Strategy<Value = PStep> {
    (
        prop_oneof![2 => Just(PBase::Root), 4 => Just(PBase::SelfBase), 3 => Just(PBase::ThreadSelf)],
        any::<u16>(),
        prop_oneof![5 => Just(0u8), 5 => 1u8..24],
        pflags(),
        prop_oneof![4 => Just(POp::Open), 4 => Just(POp::OpenFollow), 3 => Just(POp::Readlink)],
    )
        .prop_map(|(base, sel, deco, flags, op)| PStep { base, sel, deco, flags, op })
}

pub fn strategy() -> impl Strategy<Value = Case> {
    (
        prop_oneof![2 => Just(HandleKind::New), 3 => Just(HandleKind::Fsmount), 2 => Just(HandleKind::OpenTree), 2 => Just(HandleKind::PlainOpen), 2 => Just(HandleKind::CApi)],
        vec(pstep(), 1..=10),
    )
        .prop_map(|(handle, steps)| Case { handle, steps })
}

#[derive(Clone, Debug, PartialEq, Eq, Serialize, Deserialize)]
pub struct StepRep {
    pub path: B,
    /// what the entry is on a pristine view: "file","dir","symlink","missing", + magic?
    pub entry_kind: String,
    pub entry_is_magic: bool,
    /// the path uses a link / '..' as a non-final component, or is absolute-escaping
    pub hostile: Option<String>,
    pub out: String,
    pub kind: Option<String>,
    pub errno: Option<i32>,
    pub ftype: Option<String>,
    pub getfl: Option<i32>,
    pub cloexec: Option<bool>,
    pub on_procfs: Option<bool>,
    pub same_mount: Option<bool>,
    /// identity equals the harness's own pristine lookup (None: not comparable)
    pub matches_pristine: Option<bool>,
    pub pristine: String,
    pub body: Option<B>,
    pub pristine_body: Option<B>,
    pub created_in_cwd: Vec<String>,
    pub panicked: Option<String>,
}

#[derive(Clone, Debug, Serialize, Deserialize)]
pub struct Report {
    pub steps: Vec<StepRep>,
    pub fatal: Option<String>,
    pub openat2_works: bool,
}

const CREATE_FLAGS: i32 = libc::O_CREAT | libc::O_EXCL;
/// Creation flags in the flag set the call effectively asks for: a trailing '/'
/// on the sub-path stands for O_DIRECTORY (documented for the procfs calls).
fn has_create_for(f: i32, path: &[u8]) -> bool {
    has_create(f | if path.ends_with(b"/") { libc::O_DIRECTORY } else { 0 })
}

const TMPFILE_BIT: i32 = libc::O_TMPFILE & !libc::O_DIRECTORY;

fn has_create(f: i32) -> bool {
    f & CREATE_FLAGS != 0 || f & libc::O_TMPFILE == libc::O_TMPFILE
}

pub fn fsmount_proc() -> Result<i32, i32> {
    unsafe {
        let sfd = libc::syscall(430, b"proc\0".as_ptr(), 1u32);
        if sfd < 0 {
            return Err(errno());
        }
        let r = libc::syscall(431, sfd as i32, 6u32, 0usize, 0usize, 0i32);
        if r < 0 {
            let e = errno();
            libc::close(sfd as i32);
            return Err(e);
        }
        let m = libc::syscall(432, sfd as i32, 1u32, 0u32);
        let e = errno();
        libc::close(sfd as i32);
        if m < 0 {
            Err(e)
        } else {
            Ok(m as i32)
        }
    }
}

pub fn open_tree_proc(recursive: bool) -> Result<i32, i32> {
    let flags: u32 = 1 /*OPEN_TREE_CLONE*/ | libc::O_CLOEXEC as u32 | if recursive { 0x8000 /*AT_RECURSIVE*/ } else { 0 };
    let r = unsafe { libc::syscall(428, libc::AT_FDCWD, b"/proc\0".as_ptr(), flags) };
    if r < 0 {
        Err(errno())
    } else {
        Ok(r as i32)
    }
}

pub fn base_path(base: PBase, tid: i32) -> Vec<u8> {
    match base {
        PBase::Root => b".".to_vec(),
        PBase::SelfBase => b"self".to_vec(),
        PBase::ThreadSelf => format!("self/task/{}", tid).into_bytes(),
    }
}

/// step-by-step O_NOFOLLOW walk on a pristine procfs fd (harness's own view)
pub fn open_base_fd(mfd: i32, bp: &[u8]) -> Result<i32, i32> {
    let bpc = std::ffi::CString::new(bp.to_vec()).unwrap();
    let r = unsafe { libc::openat(mfd, bpc.as_ptr(), libc::O_PATH | libc::O_DIRECTORY | libc::O_CLOEXEC) };
    if r >= 0 {
        Ok(r)
    } else {
        Err(errno())
    }
}

pub fn pristine_walk(mfd: i32, comps: &[&[u8]]) -> Result<i32, i32> {
    pristine_walk2(mfd, comps, 1)
}

/// `follow_first`: number of leading components that belong to the base (the
/// base itself -- "self" -- is a link we do want to follow)
pub fn pristine_walk2(mfd: i32, comps: &[&[u8]], all_intermediate: usize) -> Result<i32, i32> {
    let mut cur = openat_raw(mfd, b".", libc::O_PATH | libc::O_DIRECTORY, 0)?;
    // Only a link that is literally the last component is "trailing": with a
    // trailing "/" or "/." the kernel (and the library) treat the named entry as
    // an intermediate component and walk through it.
    let last = if comps.last().map(|c| !c.is_empty() && *c != b".").unwrap_or(false) { comps.len() - 1 } else { usize::MAX };
    for (i, c) in comps.iter().enumerate() {
        if c.is_empty() || *c == b"." {
            continue;
        }
        let n = openat_raw(cur, c, libc::O_PATH | libc::O_NOFOLLOW, 0);
        let n = match n {
            Ok(n) => n,
            Err(e) => {
                close(cur);
                return Err(e);
            }
        };
        // ordinary procfs symlinks (self, thread-self, net, mounts: relative
        // bodies) may be walked through; magic-links (absolute or "ns:[id]"
        // bodies) may not
        let is_link = fstat(n).map(|s| s.ftype() == libc::S_IFLNK).unwrap_or(false);
        if is_link && (i != last || all_intermediate == 0) {
            let body = readlinkat(n, b"").unwrap_or_default();
            close(n);
            if body.starts_with(b"/") || body.contains(&b':') || body.is_empty() {
                close(cur);
                return Err(libc::ELOOP);
            }
            let f = openat_raw(cur, c, libc::O_PATH, 0);
            close(cur);
            cur = f?;
        } else {
            close(cur);
            cur = n;
        }
    }
    Ok(cur)
}

fn list_entries(mfd: i32, base: PBase, tid: i32) -> Vec<Vec<u8>> {
    let bp = base_path(base, tid);
    let bfd = match open_base_fd(mfd, &bp) {
        Ok(f) => f,
        Err(_) => return vec![],
    };
    let mut out: Vec<Vec<u8>> = vec![];
    let names = listdir(bfd).unwrap_or_default();
    let interesting_sub: &[&[u8]] = if base == PBase::Root { &[b"sys", b"net", b"tty", b"self", b"thread-self", b"fs", b"irq", b"bus"] } else { &[b"fd", b"ns", b"attr", b"task", b"net", b"fdinfo", b"map_files"] };
    let mut count = 0;
    for n in &names {
        if base == PBase::Root && n.iter().all(|c| c.is_ascii_digit()) {
            // other processes come and go; keep init and ourselves only
            if n != b"1" {
                continue;
            }
        }
        out.push(n.clone());
        count += 1;
        if count > 120 {
            break;
        }
    }
    for s in interesting_sub {
        if let Ok(sfd) = openat_raw(bfd, s, libc::O_RDONLY | libc::O_DIRECTORY, 0) {
            if let Ok(sub) = listdir(sfd) {
                let stable_fd = |n: &Vec<u8>| n == b"0" || n == b"1" || n == b"2" || n == b"200";
                let sub: Vec<Vec<u8>> = if *s == b"fd" || *s == b"fdinfo" { sub.into_iter().filter(stable_fd).collect() } else { sub };
                for (i, n) in sub.iter().enumerate() {
                    if i >= 12 {
                        break;
                    }
                    out.push([s.to_vec(), b"/".to_vec(), n.clone()].concat());
                    if *s == b"task" || *s == b"sys" || *s == b"net" {
                        if let Ok(tfd) = openat_raw(sfd, n, libc::O_RDONLY | libc::O_DIRECTORY | libc::O_NOFOLLOW, 0) {
                            if let Ok(subsub) = listdir(tfd) {
                                for (j, m) in subsub.iter().enumerate() {
                                    if j >= 8 {
                                        break;
                                    }
                                    out.push([s.to_vec(), b"/".to_vec(), n.clone(), b"/".to_vec(), m.clone()].concat());
                                }
                            }
                            close(tfd);
                        }
                    }
                }
            }
            close(sfd);
        }
    }
    close(bfd);
    out.sort();
    out.dedup();
    out
}

/// Decorate an existing entry path. Returns (path, hostile-reason).
fn decorate(entry: &[u8], deco: u8, fdnum: i32) -> (Vec<u8>, Option<String>) {
    let e = entry.to_vec();
    let cat = |parts: &[&[u8]]| parts.concat();
    let fdn = fdnum.to_string().into_bytes();
    match deco {
        0 => (e, None),
        1 => (cat(&[&e, b"/"]), None),
        2 => (cat(&[b"./", &e]), None),
        3 => (cat(&[&e, b"/."]), None),
        4 => (cat(&[b"", &e]).iter().flat_map(|&c| if c == b'/' { vec![b'/', b'/'] } else { vec![c] }).collect(), None),
        // stays beneath the base: allowed to succeed (kernel) or be refused (restricted resolver)
        5 => (cat(&[&e, b"/.."]), None),
        6 => (b"..".to_vec(), Some("dotdot".into())),
        7 => (cat(&[b"../", &e]), Some("dotdot".into())),
        8 => (b"root/etc".to_vec(), Some("magiclink-component".into())),
        9 => (b"cwd/..".to_vec(), Some("magiclink-component".into())),
        10 => (cat(&[b"fd/", &fdn, b"/x"]), Some("magiclink-component".into())),
        11 => (b"exe/..".to_vec(), Some("magiclink-component".into())),
        12 => (b"ns/mnt/x".to_vec(), Some("magiclink-component".into())),
        13 => (b"root/proc/self/status".to_vec(), Some("magiclink-component".into())),
        14 => (b"cwd/.".to_vec(), Some("magiclink-component".into())),
        15 => (cat(&[b"fd/", &fdn, b"/."]), Some("magiclink-component".into())),
        16 => (cat(&[b"/", &e]), None),
        17 => (b"missing-entry".to_vec(), None),
        18 => (cat(&[&e, b"/missing"]), None),
        19 => (b"".to_vec(), None),
        20 => (b"self/root/etc".to_vec(), Some("magiclink-component".into())),
        21 => (b"task/../../..".to_vec(), Some("dotdot".into())),
        22 => (cat(&[b"fd/", &fdn]), None),
        _ => (cat(&[b"fd/../", &e]), None),
    }
}

fn cwd_listing() -> Vec<String> {
    let mut v: Vec<String> = std::fs::read_dir(".").map(|rd| rd.flatten().map(|e| e.file_name().to_string_lossy().to_string()).collect()).unwrap_or_default();
    v.sort();
    v
}

pub fn child(case: &Case, kcfg: Kcfg) -> Report {
    // a scratch cwd so that stray creations are visible
    let cwd = crate::sandbox::scratch_base().join(format!("pv.{}.c07cwd", std::process::id()));
    rm_rf(&cwd);
    mkdir_p(&cwd);
    std::env::set_current_dir(&cwd).expect("chdir");
    let fdnum = {
        let f = openat_raw(libc::AT_FDCWD, b"/etc", libc::O_RDONLY | libc::O_DIRECTORY, 0).unwrap_or(-1);
        // a descriptor number that exists in both runs of a case
        let d = unsafe { libc::fcntl(f, libc::F_DUPFD_CLOEXEC, 200) };
        close(f);
        d
    };
    let rep = with_session(kcfg, None, |s| {
        s.run(|_wg, st| {
            let openat2_works = match openat2_raw(libc::AT_FDCWD, b".", libc::O_PATH as u64, 0, 0) {
                Ok(fd) => {
                    close(fd);
                    true
                }
                Err(_) => false,
            };
            let tid = gettid();
            // the handle and a pristine descriptor of the same procfs
            let (handle, mfd): (Option<ProcfsHandle>, i32) = match case.handle {
                HandleKind::New | HandleKind::CApi => {
                    let h = if case.handle == HandleKind::New { guarded(ProcfsHandle::new).ok() } else { None };
                    // identity comparisons are not possible (foreign superblock): use host /proc for shape only
                    (h, openat_raw(libc::AT_FDCWD, b"/proc", libc::O_PATH | libc::O_DIRECTORY, 0).unwrap_or(-1))
                }
                HandleKind::Fsmount | HandleKind::OpenTree | HandleKind::PlainOpen => {
                    let m = match case.handle {
                        HandleKind::Fsmount => fsmount_proc(),
                        HandleKind::OpenTree => open_tree_proc(false),
                        _ => openat_raw(libc::AT_FDCWD, b"/proc", libc::O_PATH | libc::O_DIRECTORY, 0),
                    };
                    match m {
                        Err(e) => return Report { steps: vec![], fatal: Some(format!("cannot make a {:?} procfs descriptor: {}", case.handle, errno_name(e))), openat2_works },
                        Ok(m) => {
                            let d = unsafe { libc::fcntl(m, libc::F_DUPFD_CLOEXEC, 3) };
                            let h = guarded(|| ProcfsHandle::try_from_fd(unsafe { OwnedFd::from_raw_fd(d) })).ok();
                            (h, m)
                        }
                    }
                }
            };
            if handle.is_none() && case.handle != HandleKind::CApi {
                return Report { steps: vec![], fatal: Some("could not create the procfs handle".into()), openat2_works };
            }
            let comparable = matches!(case.handle, HandleKind::Fsmount | HandleKind::OpenTree | HandleKind::PlainOpen);
            let handle_mnt = mnt_id(mfd);
            let mut steps = vec![];
            for ps in &case.steps {
                let entries = list_entries(mfd, ps.base, tid);
                let entry: Vec<u8> = if entries.is_empty() { b"status".to_vec() } else { entries[pick(ps.sel, entries.len())].clone() };
                let (path, hostile) = decorate(&entry, ps.deco, fdnum);
                let path = B(path);
                // pristine view of the entry
                let bp = base_path(ps.base, tid);
                let basefd = open_base_fd(mfd, &bp).unwrap_or(-1);
                let comps: Vec<&[u8]> = path.0.split(|&c| c == b'/').collect();
                let has_dotdot = path.0.split(|&c| c == b'/').any(|c| c == b"..");
                let pfd = if hostile.is_some() || has_dotdot { Err(libc::EXDEV) } else { pristine_walk(basefd, &comps) };
                let (entry_kind, entry_is_magic, pristine_body, pristine_id) = match &pfd {
                    Ok(fd) => {
                        let st = fstat(*fd).ok();
                        let kind = st.map(|s| s.tname().to_string()).unwrap_or_else(|| "?".into());
                        let body = if kind == "symlink" { readlinkat(*fd, b"").ok().map(B) } else { None };
                        let magic = body.as_ref().map(|b| b.0.starts_with(b"/") || b.0.contains(&b':')).unwrap_or(false);
                        (kind, magic, body, st.map(|s| s.id))
                    }
                    Err(e) => (format!("missing({})", errno_name(*e)), false, None, None),
                };
                // what following the final link yields on the pristine view (oracle for open_follow)
                let follow_id: Option<Result<Ident, i32>> = if hostile.is_none() && !has_dotdot && comps.len() >= 1 && !has_create_for(ps.flags, &path.0) {
                    // "link/" names the link with a directory requirement: the trailing
                    // slashes are not components of their own
                    let mut fc = comps.clone();
                    while fc.len() > 1 && fc.last().map(|c| c.is_empty()).unwrap_or(false) {
                        fc.pop();
                    }
                    let (par, last) = fc.split_at(fc.len() - 1);
                    match pristine_walk2(basefd, par, 0) {
                        Ok(pf) => {
                            let mut fl = ps.flags;
                            if path.0.ends_with(b"/") {
                                fl |= libc::O_DIRECTORY;
                            }
                            let lastc: &[u8] = if last[0].is_empty() { b"." } else { last[0] };
                            let r = openat_raw(pf, lastc, fl | libc::O_NOCTTY, 0);
                            close(pf);
                            Some(match r {
                                Ok(fd) => {
                                    let id = fstat(fd).map(|s| s.id);
                                    close(fd);
                                    id
                                }
                                Err(e) => Err(e),
                            })
                        }
                        Err(e) => Some(Err(e)),
                    }
                } else {
                    None
                };
                let before_cwd = cwd_listing();
                // the library call
                let mut rep = StepRep {
                    path: path.clone(),
                    entry_kind,
                    entry_is_magic,
                    hostile: hostile.clone(),
                    out: String::new(),
                    kind: None,
                    errno: None,
                    ftype: None,
                    getfl: None,
                    cloexec: None,
                    on_procfs: None,
                    same_mount: None,
                    matches_pristine: None,
                    pristine: String::new(),
                    body: None,
                    pristine_body: pristine_body.clone(),
                    created_in_cwd: vec![],
                    panicked: None,
                };
                let capi = case.handle == HandleKind::CApi;
                let out: Out;
                let mut retfd: Option<OwnedFd> = None;
                match ps.op {
                    POp::Readlink => {
                        out = if capi {
                            let mut buf = vec![0u8; 4096];
                            let r = unsafe { pathrs_proc_readlink(ps.base.c(), cpath(&path).as_ptr(), buf.as_mut_ptr() as *mut libc::c_char, buf.len()) };
                            if r >= 0 {
                                buf.truncate((r as usize).min(4096));
                                Out::Bytes(B(buf))
                            } else {
                                c_out(r, false).0
                            }
                        } else {
                            match guarded(|| handle.as_ref().unwrap().readlink(ps.base.rust(), path.as_path())) {
                                Ok(pb) => Out::Bytes(B::new(pb.as_os_str().as_encoded_bytes())),
                                Err(o) => o,
                            }
                        };
                    }
                    POp::Open | POp::OpenFollow => {
                        let follow = ps.op == POp::OpenFollow;
                        if capi {
                            let mut fl = ps.flags;
                            if follow {
                                fl &= !libc::O_NOFOLLOW;
                            } else {
                                fl |= libc::O_NOFOLLOW;
                            }
                            let r = unsafe { pathrs_proc_open(ps.base.c(), cpath(&path).as_ptr(), fl) };
                            let (o, fd) = c_out(r, true);
                            out = o;
                            retfd = fd.map(|f| unsafe { OwnedFd::from_raw_fd(f) });
                        } else {
                            let h = handle.as_ref().unwrap();
                            let r = guarded(|| if follow { h.open_follow(ps.base.rust(), path.as_path(), OpenFlags::from_bits_retain(ps.flags)) } else { h.open(ps.base.rust(), path.as_path(), OpenFlags::from_bits_retain(ps.flags)) });
                            match r {
                                Ok(f) => {
                                    let fd = OwnedFd::from(f);
                                    out = Out::Fd(Obj::of_fd(fd.as_raw_fd()));
                                    retfd = Some(fd);
                                }
                                Err(o) => out = o,
                            }
                        }
                    }
                }
                rep.out = out.class();
                match &out {
                    Out::Fd(o) => {
                        rep.ftype = Some(ftype_name(o.ftype).to_string());
                        rep.getfl = Some(o.getfl & (libc::O_ACCMODE | libc::O_PATH | libc::O_DIRECTORY | libc::O_NONBLOCK | libc::O_APPEND));
                        rep.cloexec = Some(o.cloexec);
                        rep.on_procfs = Some(fstatfs_type(o.fd) == Ok(PROC_SUPER_MAGIC));
                        if comparable {
                            rep.same_mount = Some(mnt_id(o.fd) == handle_mnt);
                            let want: Option<Result<Ident, i32>> = match ps.op {
                                POp::OpenFollow => follow_id.clone(),
                                _ => pristine_id.map(Ok),
                            };
                            if let Some(w) = want {
                                rep.pristine = format!("{:?}", w);
                                rep.matches_pristine = Some(w == Ok(o.id()));
                            }
                        }
                    }
                    Out::Bytes(b) => rep.body = Some(b.clone()),
                    Out::Err { kind, errno } => {
                        rep.kind = Some(kind.clone());
                        rep.errno = *errno;
                        if let (POp::OpenFollow, Some(Ok(id))) = (ps.op, &follow_id) {
                            rep.pristine = format!("harness open would succeed ({:?})", id);
                        }
                    }
                    Out::Panicked(m) => rep.panicked = Some(m.clone()),
                    Out::Unit => {}
                }
                drop(retfd);
                if let Ok(fd) = pfd {
                    close(fd);
                }
                close(basefd);
                let after_cwd = cwd_listing();
                rep.created_in_cwd = after_cwd.into_iter().filter(|n| !before_cwd.contains(n)).collect();
                steps.push(rep);
            }
            drop(handle);
            close(mfd);
            let _ = st;
            Report { steps, fatal: None, openat2_works }
        })
    });
    close(fdnum);
    let _ = std::env::set_current_dir("/");
    rm_rf(&cwd);
    rep
}

fn resolver(k: Kcfg) -> &'static str {
    if k.has_openat2() {
        "openat2"
    } else {
        "restricted-opath"
    }
}

fn digits_norm(b: &B) -> String {
    let s = b.to_string();
    let mut out = String::new();
    let mut in_d = false;
    for c in s.chars() {
        if c.is_ascii_digit() {
            if !in_d {
                out.push('N');
            }
            in_d = true;
        } else {
            in_d = false;
            out.push(c);
        }
    }
    out
}

fn judge_one(case: &Case, kcfg: Kcfg, rep: &Report, stats: &mut Stats) -> Result<(), Fail> {
    for (i, (ps, r)) in case.steps.iter().zip(rep.steps.iter()).enumerate() {
        stats.eval();
        stats.class(&format!("resolver:{}", resolver(kcfg)));
        stats.class(&format!("handle:{:?}", case.handle));
        stats.class(&format!("op:{:?}", ps.op));
        stats.class(&format!("entry:{}", r.entry_kind.split('(').next().unwrap_or("")));
        stats.class(&format!("outcome:{}", r.out));
        if let Some(h) = &r.hostile {
            stats.class(&format!("hostile:{}", h));
        }
        let ncomp = r.path.0.split(|&c| c == b'/').filter(|c| !c.is_empty()).count();
        if ncomp >= 2 || ps.deco != 0 || r.entry_kind == "symlink" {
            stats.nontrivial_key(&format!("{:?}|{}|{}|{:?}|{:?}|{:x}|{:?}", ps.base, digits_norm(&r.path), ps.deco, ps.op, case.handle, ps.flags, kcfg));
            stats.sample(|| json!({"handle": format!("{:?}", case.handle), "resolver": resolver(kcfg), "call": format!("{:?}({:?}, \"{}\", 0x{:x})", ps.op, ps.base, r.path, ps.flags), "entry": r.entry_kind, "outcome": r.out, "type": r.ftype, "body": r.body.as_ref().map(|b| b.to_string())}));
            stats.class_sample(&format!("{:?}:{}:{}", ps.op, r.entry_kind.split('(').next().unwrap_or(""), r.out), || json!({"call": format!("{:?}({:?}, \"{}\", 0x{:x})", ps.op, ps.base, r.path, ps.flags), "outcome": r.out, "type": r.ftype}));
        }
        let mk = |sig: String, msg: String| -> Fail {
            let single = Case { handle: case.handle, steps: case.steps[..=i].to_vec() };
            Fail::Violation(Violation {
                check: "procfs-lookup".into(),
                signature: sig,
                message: format!("{:?}({:?}, \"{}\", 0x{:x}) on a {:?} handle, {} resolver\n  entry on a pristine view: {}{}\n  result: {} type={:?} errno={:?} body={:?}\n  {}", ps.op, ps.base, r.path, ps.flags, case.handle, resolver(kcfg), r.entry_kind, if r.entry_is_magic { " (magic-link)" } else { "" }, r.out, r.ftype, r.errno.map(errno_name), r.body, msg),
                case: serde_json::to_value(&single).unwrap(),
            })
        };
        let opn = format!("{:?}", ps.op);
        if let Some(m) = &r.panicked {
            return Err(mk(format!("panic:{}", opn), format!("library panicked: {}", m)));
        }
        if !r.created_in_cwd.is_empty() {
            return Err(mk(format!("created-in-cwd:{}", opn), format!("new entries in the working directory: {:?}", r.created_in_cwd)));
        }
        let ok = r.out == "Ok";
        // (e) creation flags are refused
        if has_create_for(ps.flags, &r.path.0) && ps.op != POp::Readlink {
            if ok {
                return Err(mk(format!("creation-flags-accepted:{}:{}", opn, if r.entry_is_magic { "magiclink" } else { "plain" }), "O_CREAT/O_EXCL/O_TMPFILE was accepted".into()));
            }
            if r.kind.as_deref() != Some("inval") {
                return Err(mk(format!("creation-flags-wrong-error:{}:{}:{}", opn, if r.entry_is_magic { "magiclink" } else { "plain" }, r.out), "creation flags must be refused as an invalid argument".into()));
            }
            continue;
        }
        // the O_TMPFILE bit without O_DIRECTORY is not a flag set any open(2) accepts:
        // the call must fail; which clause rejects it first is not prescribed (the
        // resolver-equivalence clause below still applies)
        if ps.flags & TMPFILE_BIT != 0 && ps.op != POp::Readlink {
            if ok {
                return Err(mk(format!("invalid-flags-accepted:{}", opn), "a flag set with the bare O_TMPFILE bit was accepted".into()));
            }
            continue;
        }
        // (a) containment
        if ok && r.on_procfs == Some(false) && ps.op != POp::OpenFollow {
            return Err(mk(format!("left-procfs:{}", opn), "a non-following lookup returned an object that is not on procfs".into()));
        }
        if ok && r.same_mount == Some(false) && ps.op != POp::OpenFollow {
            return Err(mk(format!("other-mount:{}", opn), "the returned object is on another mount than the handle".into()));
        }
        // (b) hostile components never succeed, and fail with EXDEV/ELOOP
        if let Some(h) = &r.hostile {
            if ok {
                return Err(mk(format!("hostile-accepted:{}:{}", h, opn), "a path that leaves the base through '..' or a magic-link component succeeded".into()));
            }
            let e = r.errno.unwrap_or(0);
            stats.class(&format!("hostile-errno:{}:{}", h, errno_name(e)));
            // the property's own examples (self/root/…, self/cwd/…, self/fd/N/…, exe/..) fail with EXDEV or ELOOP
            let named_example = matches!(ps.deco, 8 | 9 | 10 | 11 | 13 | 14 | 15) && ps.base != PBase::Root;
            if named_example && !matches!(e, libc::EXDEV | libc::ELOOP | libc::EAGAIN) {
                return Err(mk(format!("hostile-wrong-errno:{}:{}", opn, errno_name(e)), "a magic-link used as a path component must fail with EXDEV or ELOOP".into()));
            }
            continue;
        }
        // (c) open / readlink never follow the final component
        if ps.op == POp::Open && r.entry_kind == "symlink" && ps.deco == 0 {
            if ok && r.ftype.as_deref() != Some("symlink") {
                return Err(mk("open-followed-final-link".into(), "open() returned the target of a trailing link".into()));
            }
            if ok && ps.flags & libc::O_PATH == 0 {
                return Err(mk("open-followed-final-link".into(), "open() without O_PATH succeeded on a link".into()));
            }
        }
        if ps.op == POp::Readlink && ok && ps.deco == 0 {
            if r.entry_kind == "symlink" {
                if let (Some(a), Some(b)) = (&r.body, &r.pristine_body) {
                    if digits_norm(a) != digits_norm(b) {
                        return Err(mk("readlink-body".into(), format!("link body differs from the harness's own readlink: {:?}", b)));
                    }
                }
            } else {
                return Err(mk("readlink-of-non-link".into(), "readlink succeeded on something that is not a link".into()));
            }
        }
        // identity against the pristine lookup
        if ok && r.matches_pristine == Some(false) {
            return Err(mk(format!("identity:{}", opn), format!("returned object differs from the harness's own lookup on the same procfs: {}", r.pristine)));
        }
        // (d) open_follow follows exactly the trailing link: if the harness's own following open succeeds, so must the library (and vice versa is covered by identity)
        if ps.op == POp::OpenFollow && !ok && r.pristine.starts_with("harness open would succeed") && matches!(case.handle, HandleKind::Fsmount | HandleKind::OpenTree | HandleKind::PlainOpen) && ps.deco == 0 {
            // errors that come from the requested flags themselves are fine; ENOENT/ELOOP/EXDEV are not
            if matches!(r.errno, Some(libc::ELOOP) | Some(libc::EXDEV) | Some(libc::ENOENT)) {
                return Err(mk(format!("open-follow-refused:{}", r.out), format!("{}", r.pristine)));
            }
        }
    }
    Ok(())
}

fn comparable_for_equiv(ps: &PStep, r: &StepRep) -> bool {
    // descriptor numbers / mappings other than the harness's own differ between the two processes
    let p = r.path.to_string();
    let volatile = (p.contains("fd/") || p.contains("fdinfo/") || p.contains("map_files/")) && !p.contains("fd/200") && !p.contains("fdinfo/200");
    if volatile {
        return false;
    }
    // (f): non-empty sub-paths without '..'
    !r.path.0.is_empty() && !r.path.0.split(|&c| c == b'/').any(|c| c == b"..") && !has_create_for(ps.flags, &r.path.0)
}

pub fn check_once(case: &Case, stats: &mut Stats) -> Result<(), Fail> {
    let run = |k: Kcfg| -> Result<Report, Fail> {
        match run_in_child(60.0, || child(case, k)) {
            ChildOut::Ok(r) => Ok(r),
            ChildOut::Crashed { sig } => Err(Fail::Violation(Violation { check: "procfs-lookup".into(), signature: format!("crash:sig{}:{}", sig, resolver(k)), message: format!("child died with signal {}", sig), case: serde_json::to_value(case).unwrap() })),
            ChildOut::Exit { code, stderr_hint } => Err(Fail::Harness(format!("child exit {}: {}", code, stderr_hint))),
            ChildOut::Timeout => Err(Fail::Harness("child timed out".into())),
        }
    };
    let a = run(Kcfg::Full)?;
    let b = run(Kcfg::NoOpenat2)?;
    for (k, r) in [(Kcfg::Full, &a), (Kcfg::NoOpenat2, &b)] {
        if let Some(f) = &r.fatal {
            return Err(Fail::Harness(f.clone()));
        }
        if r.openat2_works != k.has_openat2() {
            return Err(Fail::Harness("kcfg not effective".into()));
        }
    }
    judge_one(case, Kcfg::Full, &a, stats)?;
    judge_one(case, Kcfg::NoOpenat2, &b, stats)?;
    // (f) both resolvers agree
    for (i, ((ps, x), y)) in case.steps.iter().zip(a.steps.iter()).zip(b.steps.iter()).enumerate() {
        if digits_norm(&x.path) != digits_norm(&y.path) {
            stats.count("equiv_skipped_enumeration_differs", 1);
            continue;
        }
        if !comparable_for_equiv(ps, x) {
            continue;
        }
        stats.count("equiv_compared", 1);
        let key = |r: &StepRep| (r.out.clone(), r.errno, r.ftype.clone(), r.getfl, r.body.as_ref().map(digits_norm));
        if key(x) != key(y) {
            let single = Case { handle: case.handle, steps: case.steps[..=i].to_vec() };
            let what = if x.out != y.out { format!("outcome:{}-vs-{}", x.out, y.out) } else if x.ftype != y.ftype { "type".into() } else if x.getfl != y.getfl { "getfl".into() } else { "body".into() };
            // one root cause, many spellings: an nsfs magic-link (ns/<x>) used as a directory
            let comps: Vec<&[u8]> = x.path.0.split(|&c| c == b'/').collect();
            let ns_component = comps.windows(3).any(|w| w[0] == b"ns" && !w[1].is_empty());
            let sig = if ns_component && x.errno == Some(libc::ELOOP) && y.errno == Some(libc::ENOENT) {
                "resolvers-differ:nsfs-magiclink-as-component:ELOOP-vs-ENOENT".to_string()
            } else {
                format!("resolvers-differ:{:?}:{}:{}", ps.op, what, x.hostile.clone().unwrap_or_else(|| x.entry_kind.split('(').next().unwrap_or("").to_string()))
            };
            return Err(Fail::Violation(Violation {
                check: "procfs-lookup".into(),
                signature: sig,
                message: format!("{:?}({:?}, \"{}\", 0x{:x}) on a {:?} handle\n  openat2 resolver   : {} type={:?} errno={:?} getfl={:?} body={:?}\n  restricted resolver: {} type={:?} errno={:?} getfl={:?} body={:?}", ps.op, ps.base, x.path, ps.flags, case.handle, x.out, x.ftype, x.errno.map(errno_name), x.getfl, x.body, y.out, y.ftype, y.errno.map(errno_name), y.getfl, y.body),
                case: serde_json::to_value(&single).unwrap(),
            }));
        }
    }
    Ok(())
}

pub fn check(case: &Case, stats: &mut Stats) -> Result<(), Fail> {
    stable(&check_once, case, stats, 2)
}

fn run_lane(ctx: &Ctx, lr: &mut LaneResult) {
    search(ctx, lr, "procfs-lookup", ctx.tier.pick(3200, 32000), strategy(), &check);
}

fn replay(_ctx: &Ctx, _check: &str, case: &Value) -> Result<(), Fail> {
    let case: Case = serde_json::from_value(case.clone()).map_err(|e| Fail::Harness(format!("bad case: {}", e)))?;
    let mut s = Stats::default();
    check(&case, &mut s)
}

pub const PROP: Prop = Prop {
    id: "C07",
    level: "exploration",
    rule: "handle kind {ProcfsHandle::new(), try_from_fd of a harness-made fsopen+fsmount instance / open_tree clone / plain open(\"/proc\"), C API global} x 1-10 calls {open, open_follow, readlink} x base {root, self, thread-self} x sub-path drawn from a LIVE enumeration of the base on a pristine descriptor (all entries, plus fd/ns/attr/task/net/sys children two to three levels deep), plain or decorated ('/', './', '/.', '//', absolute, missing, '' ; hostile: '..' forms, and magic-links as components: root/etc, cwd/.., fd/N/x, exe/.., ns/mnt/x, self/root/etc …) x open flags (access modes, O_PATH, O_DIRECTORY, O_NOFOLLOW, O_NONBLOCK and the creation flags O_CREAT/O_EXCL/O_TMPFILE); every case is run with the openat2 procfs resolver and (openat2 -> ENOSYS) with the restricted O_PATH resolver. Oracles: creation flags => InvalidArgument on every entry point and nothing appears in the working directory; hostile paths never succeed; non-following calls return objects on procfs and on the handle's mount; open()/readlink() never follow the final link (link itself only with O_PATH; body = harness's readlink); results equal the harness's own O_NOFOLLOW walk / single following open on the same procfs instance by (dev,ino); for non-empty sub-paths without '..' both resolvers agree on outcome, errno, type, F_GETFL and body. non-trivial = >=2 components or decorated or a link; distinct by (base, path with numbers normalised, decoration, op, handle, flags, resolver)",
    assumptions: &["identity comparisons need a descriptor of the same procfs instance, so they are made for try_from_fd handles only; for new()/C API only shape oracles apply", "procfs entries that differ between the two runs (thread ids) are compared with numbers normalised; steps whose enumeration differs are skipped and counted"],
    lanes: |_| 16,
    run_lane,
    replay,
    extra: None,
    exhaustive: false,
};
