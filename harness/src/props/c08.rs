//! C08 — procfs lookups use bounded resources and report true errors on any /proc.

use crate::capi::*;
use crate::driver::*;
use crate::exec::*;
use crate::gate::*;
use crate::props::c06::{drop_privileges, enter_private_mntns};
use crate::props::c07::POp;
use crate::util::*;
use crate::workload::PBase;
use pathrs::flags::OpenFlags;
use pathrs::procfs::ProcfsHandle;
use serde::{Deserialize, Serialize};
use serde_json::{json, Value};
use std::ffi::CString;
use std::os::unix::io::{AsRawFd, FromRawFd, OwnedFd};
use std::sync::atomic::{AtomicUsize, Ordering};
use std::sync::Arc;

#[derive(Clone, Copy, Debug, PartialEq, Eq, Hash, Serialize, Deserialize)]
pub enum ProcOpt {
    Default,
    Hidepid1,
    Hidepid2,
    HidepidPtraceable,
    SubsetPid,
}

impl ProcOpt {
    fn data(&self) -> Option<&'static str> {
        match self {
            ProcOpt::Default => None,
            ProcOpt::Hidepid1 => Some("hidepid=1"),
            ProcOpt::Hidepid2 => Some("hidepid=2"),
            ProcOpt::HidepidPtraceable => Some("hidepid=ptraceable"),
            ProcOpt::SubsetPid => Some("subset=pid"),
        }
    }
}

#[derive(Clone, Copy, Debug, PartialEq, Eq, Hash, Serialize, Deserialize)]
pub enum Ctor {
    New,
    TryFromFdPlainOpen,
    CApiGlobal,
}

#[derive(Clone, Copy, Debug, PartialEq, Eq, Hash, Serialize, Deserialize)]
pub enum SubKind {
    Existing,
    Missing,
    MaskedButExisting,
    /// the existing entry behind 100 "./" components: resources must not grow with the path
    ExistingLong,
    MissingLong,
}

#[derive(Clone, Debug, Serialize, Deserialize)]
pub struct Case {
    pub unprivileged: bool,
    pub proc_opt: ProcOpt,
    pub ctor: Ctor,
    pub base: PBase,
    pub sub: SubKind,
    pub nofile: u64,
    pub op: POp,
    /// which of the kernel's mount-API entry points exist for the library
    #[serde(default = "kcfg_full")]
    pub kcfg: Kcfg,
}

fn kcfg_full() -> Kcfg {
    Kcfg::Full
}

pub fn all_cases() -> Vec<Case> {
    let mut v = vec![];
    for unprivileged in [false, true] {
        for proc_opt in [ProcOpt::Default, ProcOpt::Hidepid1, ProcOpt::Hidepid2, ProcOpt::HidepidPtraceable, ProcOpt::SubsetPid] {
            for ctor in [Ctor::New, Ctor::TryFromFdPlainOpen, Ctor::CApiGlobal] {
                for base in [PBase::Root, PBase::SelfBase, PBase::ThreadSelf] {
                    for sub in [SubKind::Existing, SubKind::Missing, SubKind::MaskedButExisting, SubKind::ExistingLong, SubKind::MissingLong] {
                        for nofile in [64u64, 1024, 65536] {
                            for kcfg in [Kcfg::Full, Kcfg::NoFsopen, Kcfg::NoMountApi, Kcfg::NoOpenat2NoFsopen] {
                                let op = match (v.len() / 4) % 3 {
                                    0 => POp::Open,
                                    1 => POp::Readlink,
                                    _ => POp::OpenFollow,
                                };
                                v.push(Case { unprivileged, proc_opt, ctor, base, sub, nofile, op, kcfg });
                            }
                        }
                    }
                }
            }
        }
    }
    v
}

const LONG_EXISTING: &str = "./././././././././././././././././././././././././././././././././././././././././././././././././././././././././././././././././././././././././././././././././././././././././././././././././././././status";
const LONG_MISSING: &str = "./././././././././././././././././././././././././././././././././././././././././././././././././././././././././././././././././././././././././././././././././././././././././././././././././././././does-not-exist";

fn sub_path(c: &Case) -> (&'static str, PBase) {
    match (c.sub, c.base) {
        (SubKind::ExistingLong, PBase::Root) => ("./././././././././././././././././././././././././././././././././././././././././././././././././././././././././././././././././././././././././././././././././././././././././././././././././././././self", PBase::Root),
        (SubKind::ExistingLong, b) => (LONG_EXISTING, b),
        (SubKind::MissingLong, b) => (LONG_MISSING, b),
        (SubKind::Existing, PBase::Root) => ("self", PBase::Root),
        (SubKind::Existing, b) => ("status", b),
        (SubKind::Missing, b) => ("does-not-exist", b),
        // entries that a masked procfs hides although they exist: always below the root
        (SubKind::MaskedButExisting, PBase::Root) => ("stat", PBase::Root),
        (SubKind::MaskedButExisting, PBase::SelfBase) => ("1/status", PBase::Root),
        (SubKind::MaskedButExisting, PBase::ThreadSelf) => ("sys/kernel/ostype", PBase::Root),
    }
}

#[derive(Clone, Debug, Serialize, Deserialize)]
pub struct Report {
    pub out: Out,
    pub setup_problem: Option<String>,
    pub handle_creations: usize,
    pub procfs_acquisitions: usize,
    pub peak_fds: usize,
    pub entry_fds: usize,
    pub syscalls: usize,
    pub bound_exceeded: bool,
    pub handle_masked: Option<bool>,
    pub trace_head: Vec<String>,
}

fn count_fds(limit: i32) -> usize {
    (0..limit).filter(|&fd| fcntl_getfd(fd) >= 0).count()
}

pub fn child(case: &Case) -> Report {
    let mut rep = Report { out: Out::Unit, setup_problem: None, handle_creations: 0, procfs_acquisitions: 0, peak_fds: 0, entry_fds: 0, syscalls: 0, bound_exceeded: false, handle_masked: None, trace_head: vec![] };
    if let Err(e) = enter_private_mntns() {
        rep.setup_problem = Some(e);
        return rep;
    }
    if let Some(data) = case.proc_opt.data() {
        let p = CString::new("/proc").unwrap();
        let t = CString::new("proc").unwrap();
        let d = CString::new(data).unwrap();
        let r = unsafe { libc::mount(t.as_ptr(), p.as_ptr(), t.as_ptr(), 0, d.as_ptr() as *const libc::c_void) };
        if r != 0 {
            rep.setup_problem = Some(format!("mount -t proc -o {}: {}", data, errno_name(errno())));
            return rep;
        }
    }
    let lim = libc::rlimit { rlim_cur: case.nofile, rlim_max: case.nofile };
    unsafe { libc::setrlimit(libc::RLIMIT_NOFILE, &lim) };
    if case.unprivileged {
        if let Err(e) = drop_privileges(65534) {
            rep.setup_problem = Some(e);
            return rep;
        }
    }
    let creations = Arc::new(AtomicUsize::new(0));
    let acquisitions = Arc::new(AtomicUsize::new(0));
    let peak = Arc::new(AtomicUsize::new(0));
    let (c2, a2, p2) = (creations.clone(), acquisitions.clone(), peak.clone());
    let scan = (case.nofile.min(300)) as i32;
    let first = match case.kcfg {
        Kcfg::Full | Kcfg::NoOpenat2 => 0,
        Kcfg::NoFsopen | Kcfg::NoOpenat2NoFsopen => 1,
        _ => 2,
    };
    let hook: Hook = Box::new(move |sys: &Sys, _c: &mut CallRec| {
        // every ProcfsHandle::new()/new_unmasked() starts with the first mount-API entry
        // point the kernel configuration offers: fsopen(2), else open_tree(2), else open("/proc")
        let opens_proc = sys.name == "openat" && sys.paths.first().map(|p| p.0 == b"/proc").unwrap_or(false);
        let first_stage = match first {
            0 => sys.name == "fsopen",
            1 => sys.name == "open_tree",
            _ => opens_proc,
        };
        if first_stage {
            c2.fetch_add(1, Ordering::SeqCst);
        }
        if sys.name == "fsmount" || sys.name == "open_tree" || opens_proc {
            a2.fetch_add(1, Ordering::SeqCst);
        }
        let n = count_fds(scan);
        p2.fetch_max(n, Ordering::SeqCst);
        // runaway: unwind with descriptor exhaustion instead of overflowing the stack
        if c2.load(Ordering::SeqCst) > 6 {
            if desc(sys.nr).map(|d| d.fd_creating).unwrap_or(false) {
                return Action::Errno(libc::EMFILE);
            }
        }
        Action::Continue
    });
    let policy = Policy { observe: true, kinds: false, max_syscalls: 5000, hook: Some(hook), ..Policy::default() };
    let (sub, base) = sub_path(case);
    let path = B::new(sub);
    let (out, masked, call) = with_session(case.kcfg, Some(policy), |s| {
        let (out, masked) = s.run(|wg, _st| {
            // the handle is created outside the measured call (except for the C API, whose
            // global handle is created by the first call that needs it)
            let handle: Option<ProcfsHandle> = match case.ctor {
                Ctor::New => guarded(ProcfsHandle::new).ok(),
                Ctor::TryFromFdPlainOpen => openat_raw(libc::AT_FDCWD, b"/proc", libc::O_PATH | libc::O_DIRECTORY, 0).ok().and_then(|m| guarded(|| ProcfsHandle::try_from_fd(unsafe { OwnedFd::from_raw_fd(m) })).ok()),
                Ctor::CApiGlobal => None,
            };
            if handle.is_none() && case.ctor != Ctor::CApiGlobal {
                return (Out::Err { kind: "no-handle".into(), errno: None }, None);
            }
            // is the handle a masked one? (what the library's own probe looks at)
            let masked = handle.as_ref().map(|_| {
                // same probes as the library, on the host view the handle was made from
                let probe = |p: &str| fstatat(libc::AT_FDCWD, format!("/proc/{}", p).as_bytes(), true).is_err();
                probe("stat") || probe("1")
            });
            wg.enter(1);
            let mut ret: Option<OwnedFd> = None;
            let out = match (case.ctor, case.op) {
                (Ctor::CApiGlobal, POp::Readlink) => {
                    let mut buf = vec![0u8; 4096];
                    let r = unsafe { pathrs_proc_readlink(base.c(), cpath(&path).as_ptr(), buf.as_mut_ptr() as *mut libc::c_char, buf.len()) };
                    if r >= 0 {
                        Out::Bytes(B(buf[..(r as usize).min(4096)].to_vec()))
                    } else {
                        c_out(r, false).0
                    }
                }
                (Ctor::CApiGlobal, op) => {
                    let fl = if op == POp::Open { libc::O_RDONLY | libc::O_NOFOLLOW } else { libc::O_RDONLY };
                    let r = unsafe { pathrs_proc_open(base.c(), cpath(&path).as_ptr(), fl) };
                    let (o, fd) = c_out(r, true);
                    ret = fd.map(|f| unsafe { OwnedFd::from_raw_fd(f) });
                    o
                }
                (_, POp::Readlink) => match guarded(|| handle.as_ref().unwrap().readlink(base.rust(), path.as_path())) {
                    Ok(p) => Out::Bytes(B::new(p.as_os_str().as_encoded_bytes())),
                    Err(o) => o,
                },
                (_, op) => {
                    let h = handle.as_ref().unwrap();
                    match guarded(|| if op == POp::OpenFollow { h.open_follow(base.rust(), path.as_path(), OpenFlags::O_RDONLY) } else { h.open(base.rust(), path.as_path(), OpenFlags::O_RDONLY) }) {
                        Ok(f) => {
                            let fd = OwnedFd::from(f);
                            let o = Out::Fd(Obj::of_fd(fd.as_raw_fd()));
                            ret = Some(fd);
                            o
                        }
                        Err(o) => o,
                    }
                }
            };
            wg.exit();
            drop(ret);
            drop(handle);
            (out, masked)
        });
        let call = s.take_calls().into_iter().find(|c| c.id == 1);
        (out, masked, call)
    });
    rep.out = out;
    rep.handle_masked = masked;
    rep.handle_creations = creations.load(Ordering::SeqCst);
    rep.procfs_acquisitions = acquisitions.load(Ordering::SeqCst);
    rep.peak_fds = peak.load(Ordering::SeqCst);
    if let Some(c) = call {
        rep.syscalls = c.n_syscalls;
        rep.bound_exceeded = c.bound_exceeded;
        rep.entry_fds = c.trace.first().map(|_| 0).unwrap_or(0);
        rep.trace_head = c.trace.iter().take(60).map(|s| s.short()).collect();
    }
    rep
}

pub fn judge(case: &Case, rep: &Report, stats: &mut Stats) -> Result<(), Fail> {
    if let Some(p) = &rep.setup_problem {
        stats.count("setup_skipped", 1);
        stats.class(&format!("setup-problem:{}", p.chars().take(40).collect::<String>()));
        return Ok(());
    }
    if let Out::Err { kind, .. } = &rep.out {
        if kind == "no-handle" {
            stats.count("no_handle", 1);
            return Ok(());
        }
    }
    stats.eval();
    stats.class(&format!("proc:{:?}", case.proc_opt));
    stats.class(if case.unprivileged { "caller:unprivileged" } else { "caller:root" });
    stats.class(&format!("ctor:{:?}", case.ctor));
    stats.class(&format!("kernel:{}", case.kcfg.name()));
    stats.class(&format!("sub:{:?}", case.sub));
    stats.class(&format!("outcome:{}", rep.out.class()));
    stats.class(&format!("handle-creations-in-call:{}", rep.handle_creations.min(8)));
    if rep.handle_masked == Some(true) {
        stats.class("handle:masked");
    }
    let (sub, _) = sub_path(case);
    if rep.handle_masked == Some(true) || case.proc_opt != ProcOpt::Default || case.sub != SubKind::Existing {
        stats.nontrivial_key(&format!("{:?}", case));
        stats.sample(|| json!({"case": format!("{:?}", case), "sub_path": sub, "outcome": rep.out.brief(), "handle_creations_during_call": rep.handle_creations, "procfs_root_acquisitions": rep.procfs_acquisitions, "peak_open_descriptors": rep.peak_fds, "syscalls": rep.syscalls}));
        stats.class_sample(&format!("{:?}:{:?}:{}:{}", case.proc_opt, case.sub, if case.unprivileged { "unpriv" } else { "root" }, rep.out.class()), || json!({"case": format!("{:?}", case), "outcome": rep.out.brief(), "handle_creations": rep.handle_creations}));
    }
    let mk = |sig: String, msg: String| -> Fail {
        Fail::Violation(Violation {
            check: "procfs-bounds".into(),
            signature: sig,
            message: format!("{:?} of \"{}\" ({:?}) via {:?}, /proc mounted {:?}, caller {}, RLIMIT_NOFILE {}, kernel configuration {}\n  outcome: {}\n  handles created during the call: {}, procfs root acquisitions: {}, peak open descriptors: {}, syscalls: {}\n  {}\n  trace: {:?}", case.op, sub, case.base, case.ctor, case.proc_opt, if case.unprivileged { "uid 65534, no capabilities" } else { "root" }, case.nofile, case.kcfg.name(), rep.out.brief(), rep.handle_creations, rep.procfs_acquisitions, rep.peak_fds, rep.syscalls, msg, rep.trace_head.iter().take(30).collect::<Vec<_>>()),
            case: serde_json::to_value(case).unwrap(),
        })
    };
    let who = if case.unprivileged { "unprivileged" } else { "root" };
    if let Out::Panicked(m) = &rep.out {
        return Err(mk("panic".into(), format!("library panicked: {}", m)));
    }
    // a constant number of handles: the call's own retry may create one more (plus the C API's global one)
    let allowed = if case.ctor == Ctor::CApiGlobal { 3 } else { 2 };
    if rep.handle_creations > allowed {
        return Err(mk(format!("unbounded-handle-creation:{}:{:?}", who, case.sub), format!("{} procfs handles were created by a single call (allowed: {})", rep.handle_creations, allowed)));
    }
    if rep.bound_exceeded || rep.syscalls > 2500 {
        return Err(mk(format!("too-many-syscalls:{}", who), "the call needed an unbounded number of system calls".into()));
    }
    if rep.peak_fds > 40 {
        return Err(mk(format!("descriptor-pile-up:{}", who), format!("{} descriptors were open at once during the call", rep.peak_fds)));
    }
    if matches!(case.sub, SubKind::Missing | SubKind::MissingLong) {
        let ok = matches!(&rep.out, Out::Err { kind, errno: Some(e) } if kind == "os" && *e == libc::ENOENT);
        if !ok {
            return Err(mk(format!("missing-path-not-ENOENT:{}:{}", who, rep.out.class()), "a path that does not exist must be reported as ENOENT".into()));
        }
    }
    Ok(())
}

pub fn check_once(case: &Case, stats: &mut Stats) -> Result<(), Fail> {
    match run_in_child(60.0, || child(case)) {
        ChildOut::Ok(rep) => judge(case, &rep, stats),
        ChildOut::Crashed { sig } => Err(Fail::Violation(Violation {
            check: "procfs-bounds".into(),
            signature: format!("crash:sig{}:{}", sig, if case.unprivileged { "unprivileged" } else { "root" }),
            message: format!("the process died with signal {} during {:?}", sig, case),
            case: serde_json::to_value(case).unwrap(),
        })),
        ChildOut::Exit { code, stderr_hint } => Err(Fail::Harness(format!("child exit {}: {}", code, stderr_hint))),
        ChildOut::Timeout => Err(Fail::Harness("child timed out".into())),
    }
}

pub fn check(case: &Case, stats: &mut Stats) -> Result<(), Fail> {
    stable(&check_once, case, stats, 1)
}

fn run_lane(ctx: &Ctx, lr: &mut LaneResult) {
    let cases = all_cases();
    run_fixed(ctx, lr, "procfs-bounds", &cases, &check);
}

fn replay(_ctx: &Ctx, _check: &str, case: &Value) -> Result<(), Fail> {
    let case: Case = serde_json::from_value(case.clone()).map_err(|e| Fail::Harness(format!("bad case: {}", e)))?;
    let mut s = Stats::default();
    check(&case, &mut s)
}

pub const PROP: Prop = Prop {
    id: "C08",
    level: "exploration",
    rule: "the full product (enumerated, not sampled: 2 x 5 x 3 x 3 x 5 x 3 x 4 = 5400 cases) of caller privilege {root; uid 65534 without capabilities} x the host /proc of a private mount namespace re-mounted with {default, hidepid=1, hidepid=2, hidepid=ptraceable, subset=pid} x constructor {ProcfsHandle::new(), try_from_fd(open(\"/proc\")), C API global handle} x base x sub-path {existing, missing, existing-but-masked (stat, 1/status, sys/kernel/ostype), existing and missing behind 100 './' components} x RLIMIT_NOFILE {64, 1024, 65536} x kernel configuration {full, fsopen -> ENOSYS (open_tree clone of the host mount), whole mount API -> ENOSYS (plain open of /proc), fsopen+openat2 -> ENOSYS}, ops rotating over open / readlink / open_follow. The single call runs under the observing gate: the supervisor counts constructor invocations by their first available stage (fsopen(2), else open_tree(2), else open(\"/proc\")), procfs-root acquisitions (fsmount, open_tree, openat(\"/proc\")), open descriptors at every syscall, and syscalls; beyond 6 handle creations it answers EMFILE so that a runaway call unwinds instead of exhausting the stack. Oracle: at most 2 handle creations per call (3 when the C API's global handle is created by it), <= 40 descriptors open at once, <= 2500 syscalls, no crash/panic, and a missing path => OsError(ENOENT). non-trivial = masked handle, non-default /proc, or a missing/masked path",
    assumptions: &["needs CAP_SYS_ADMIN to build the mount namespace and CAP_SETUID to become unprivileged", "missing mount-API entry points are emulated by seccomp ENOSYS on the library's thread"],
    lanes: |_| 16,
    run_lane,
    replay,
    extra: Some(|_| json!({"exhaustive_scope": "all 5400 combinations of the quantifier's product"})),
    exhaustive: true,
};
