//! C09 — reopen yields the same inode for any descriptor number and /proc state.

use crate::capi::*;
use crate::driver::*;
use crate::exec::*;
use crate::gate::*;
use crate::props::c06::{apply_overmounts, drop_privileges, enter_private_mntns, OverMount};
use crate::sandbox::*;
use crate::util::*;
use pathrs::flags::OpenFlags;
use pathrs::Handle;
use proptest::collection::vec;
use proptest::prelude::*;
use serde::{Deserialize, Serialize};
use serde_json::{json, Value};
use std::ffi::CString;
use std::os::unix::io::{AsRawFd, FromRawFd, OwnedFd};

#[derive(Clone, Copy, Debug, PartialEq, Eq, Hash, Serialize, Deserialize)]
pub enum Kind {
    File,
    Dir,
    Fifo,
    Chr,
    Symlink,
}

#[derive(Clone, Copy, Debug, PartialEq, Eq, Hash, Serialize, Deserialize)]
pub enum Hist {
    RenamePath,
    RenameParent,
    ReplaceByFile,
    ReplaceByDir,
    ReplaceByLinkToDecoy,
    Unlink,
    RenameBack,
    /// move the handle's file to the bottom of a directory chain deeper than PATH_MAX (inside the root)
    RenameDeep,
}

#[derive(Clone, Copy, Debug, PartialEq, Eq, Hash, Serialize, Deserialize)]
pub enum ProcState {
    Normal,
    /// private mount namespace with mounts over the host /proc
    OverMounted(u8),
}

#[derive(Clone, Debug, Serialize, Deserialize)]
pub struct Case {
    pub kcfg: Kcfg,
    pub kind: Kind,
    pub flags: i32,
    pub fdnum: i32,
    pub history: Vec<Hist>,
    pub capi: bool,
    pub proc_state: ProcState,
    pub unprivileged: bool,
    /// the calling thread has its own descriptor table (unshare(CLONE_FILES)) and the
    /// thread-group leader has a different file at the handle's descriptor number
    #[serde(default)]
    pub private_fdtable: bool,
    /// the caller is the init process of a new pid namespace (pid 1, tid 1) while the
    /// library's process-wide procfs handle was created before, in the parent namespace by
    /// that namespace's own pid 1, which holds a decoy at the handle's descriptor number
    #[serde(default)]
    pub pidns: bool,
}

pub fn rflags() -> impl Strategy<Value = i32> {
    let acc = prop_oneof![Just(libc::O_RDONLY), Just(libc::O_WRONLY), Just(libc::O_RDWR)];
    let normal = (acc, proptest::bits::u8::masked(0x3f)).prop_map(|(a, bits)| {
        let table = [libc::O_APPEND, libc::O_NOATIME, libc::O_DIRECTORY, libc::O_NOFOLLOW, libc::O_CLOEXEC, libc::O_SYNC];
        let mut f = a | libc::O_NONBLOCK;
        for (i, fl) in table.iter().enumerate() {
            if bits & (1 << i) != 0 && (i != 2 || bits & 3 == 3) {
                f |= fl;
            }
        }
        f
    });
    prop_oneof![
        8 => normal,
        2 => Just(libc::O_PATH),
        1 => Just(libc::O_PATH | libc::O_DIRECTORY),
        1 => Just(libc::O_RDONLY | libc::O_DIRECTORY),
        1 => Just(libc::O_RDONLY | libc::O_CREAT),
        1 => Just(libc::O_RDWR | libc::O_TMPFILE),
        1 => Just(libc::O_WRONLY | libc::O_CREAT | libc::O_EXCL),
        1 => Just(libc::O_RDONLY | libc::O_EXCL),
        1 => Just(libc::O_WRONLY | libc::O_TRUNC | libc::O_NONBLOCK),
    ]
}

pub fn strategy() -> impl Strategy<Value = Case> {
    (
        prop_oneof![3 => Just(Kcfg::Full), 2 => Just(Kcfg::NoOpenat2), 1 => Just(Kcfg::NoFsopen), 1 => Just(Kcfg::NoMountApi), 1 => Just(Kcfg::NoOpenat2NoMountApi)],
        prop_oneof![4 => Just(Kind::File), 3 => Just(Kind::Dir), 1 => Just(Kind::Fifo), 1 => Just(Kind::Chr), 2 => Just(Kind::Symlink)],
        rflags(),
        prop_oneof![3 => Just(0), 1 => Just(1), 1 => Just(2), 3 => Just(3), 2 => Just(7), 2 => Just(255), 2 => Just(1023)],
        vec(prop_oneof![Just(Hist::RenamePath), Just(Hist::RenameParent), Just(Hist::ReplaceByFile), Just(Hist::ReplaceByDir), Just(Hist::ReplaceByLinkToDecoy), Just(Hist::Unlink), Just(Hist::RenameBack), Just(Hist::RenameDeep)], 0..5),
        prop_oneof![3 => Just(false), 1 => Just(true)],
        prop_oneof![3 => Just(ProcState::Normal), 2 => (0u8..8).prop_map(ProcState::OverMounted)],
        prop_oneof![3 => Just(false), 1 => Just(true)],
        prop_oneof![3 => Just(false), 1 => Just(true)],
        prop_oneof![7 => Just(false), 1 => Just(true)],
    )
        .prop_map(|(kcfg, kind, flags, fdnum, history, capi, proc_state, unprivileged, private_fdtable, pidns)| {
            if pidns {
                // the namespace variant runs the call on the main thread of the new init
                // process: no seccomp configuration, no other dimension mixed in
                Case { kcfg: Kcfg::Full, kind, flags, fdnum, history, capi, proc_state: ProcState::Normal, unprivileged: false, private_fdtable: false, pidns }
            } else {
                Case { kcfg, kind, flags, fdnum, history, capi, proc_state, unprivileged, private_fdtable, pidns }
            }
        })
}

#[derive(Clone, Debug, Serialize, Deserialize)]
pub struct Report {
    pub out: Out,
    pub handle_id: Option<Ident>,
    pub same_inode: Option<bool>,
    /// what the kernel itself does when this inode is opened with these flags
    /// through the magic-link on a pristine procfs (harness's own open)
    pub reference: String,
    pub reference_getfl: Option<i32>,
    pub reference_errno: Option<i32>,
    pub new_entries: Vec<String>,
    pub history_applied: Vec<String>,
    pub setup_problem: Option<String>,
    pub mounts: Vec<String>,
    pub private_procfs: bool,
    /// the handle's file now lives deeper than PATH_MAX
    #[serde(default)]
    pub deep: bool,
}

const CREATE_FLAGS: i32 = libc::O_CREAT | libc::O_EXCL;
fn has_create(f: i32) -> bool {
    f & CREATE_FLAGS != 0 || f & libc::O_TMPFILE == libc::O_TMPFILE
}

fn c(p: &std::path::Path) -> CString {
    CString::new(p.as_os_str().as_encoded_bytes()).unwrap()
}

pub fn child(case: &Case) -> Report {
    let mut rep = Report { out: Out::Unit, handle_id: None, same_inode: None, reference: String::new(), reference_getfl: None, reference_errno: None, new_entries: vec![], history_applied: vec![], setup_problem: None, mounts: vec![], private_procfs: false, deep: false };
    let sb = Sandbox::create("c09");
    let root = sb.root();
    // world-accessible so that the unprivileged variant can work in it
    unsafe { libc::chmod(c(&sb.base).as_ptr(), 0o755) };
    let d = root.join("d");
    mkdir_p(&d);
    unsafe { libc::chmod(c(&root).as_ptr(), 0o777) };
    unsafe { libc::chmod(c(&d).as_ptr(), 0o777) };
    let target = d.join("target");
    match case.kind {
        Kind::File => std::fs::write(&target, b"reopen-me").unwrap(),
        Kind::Dir => mkdir_p(&target),
        Kind::Fifo => {
            unsafe { libc::mkfifo(c(&target).as_ptr(), 0o666) };
        }
        Kind::Chr => {
            unsafe { libc::mknod(c(&target).as_ptr(), libc::S_IFCHR | 0o666, libc::makedev(1, 3)) };
        }
        Kind::Symlink => {
            std::os::unix::fs::symlink("other", &target).unwrap();
        }
    }
    unsafe { libc::chmod(c(&target).as_ptr(), 0o666 | if case.kind == Kind::Dir { 0o111 } else { 0 }) };
    std::fs::write(d.join("other"), b"other-file").unwrap();
    // a pristine procfs descriptor for the reference open, made before any over-mount
    let pristine = {
        let f = openat_raw(libc::AT_FDCWD, b"/proc", libc::O_PATH | libc::O_DIRECTORY, 0).unwrap_or(-1);
        // keep the harness's own descriptors away from the numbers under test
        let d = unsafe { libc::fcntl(f, libc::F_DUPFD_CLOEXEC, 2000) };
        close(f);
        d
    };
    // the handle: an O_PATH|O_NOFOLLOW descriptor of the target at the requested number
    let hfd0 = match openat_raw(libc::AT_FDCWD, target.as_os_str().as_encoded_bytes(), libc::O_PATH | libc::O_NOFOLLOW, 0) {
        Ok(f) => {
            let d = unsafe { libc::fcntl(f, libc::F_DUPFD_CLOEXEC, 2100) };
            close(f);
            d
        }
        Err(e) => {
            rep.setup_problem = Some(format!("open target: {}", errno_name(e)));
            return rep;
        }
    };
    let hfd = if case.fdnum >= 0 && case.fdnum != hfd0 {
        let r = unsafe { libc::dup3(hfd0, case.fdnum, libc::O_CLOEXEC) };
        if r < 0 {
            rep.setup_problem = Some(format!("dup3 to {}: {}", case.fdnum, errno_name(errno())));
            return rep;
        }
        close(hfd0);
        r
    } else {
        hfd0
    };
    rep.handle_id = fstat(hfd).ok().map(|s| s.id);
    // /proc state
    if let ProcState::OverMounted(k) = case.proc_state {
        if let Err(e) = enter_private_mntns() {
            rep.setup_problem = Some(format!("mount namespace: {}", e));
            return rep;
        }
        let pid = std::process::id();
        let plans: Vec<OverMount> = match k % 8 {
            0 => vec![OverMount::TmpfsOn(format!("/proc/{}/fd", pid))],
            1 => vec![OverMount::BindFileOnLink(sb.outside().join("secret.f").to_string_lossy().to_string(), format!("/proc/{}/fd/{}", pid, hfd))],
            2 => vec![OverMount::BindDirOn(sb.outside().join("dir").to_string_lossy().to_string(), format!("/proc/{}/fd", pid))],
            3 => vec![OverMount::BindFileOnLink(sb.outside().join("dir").to_string_lossy().to_string(), format!("/proc/{}/fd/{}", pid, hfd))],
            4 => vec![OverMount::BindDirOn(sb.outside().join("dir").to_string_lossy().to_string(), format!("/proc/{}/task", pid))],
            5 => vec![OverMount::TmpfsOn(format!("/proc/{}", pid))],
            6 => vec![OverMount::BindDirOn("/proc/1/fd".to_string(), format!("/proc/{}/fd", pid))],
            _ => vec![OverMount::BindFileOnLink("/proc/1/status".to_string(), format!("/proc/{}/fd/{}", pid, hfd))],
        };
        rep.mounts = apply_overmounts(&plans);
    }
    if case.unprivileged {
        if let Err(e) = drop_privileges(65534) {
            rep.setup_problem = Some(format!("drop privileges: {}", e));
            return rep;
        }
    }
    // history between obtaining the handle and reopening it
    let mut cur_d = d.clone();
    let mut cur_name = "target".to_string();
    let mut exists = true;
    for h in &case.history {
        let t = cur_d.join(&cur_name);
        let note = match h {
            Hist::RenamePath => {
                if exists {
                    let n = format!("{}.moved", cur_name);
                    let r = std::fs::rename(&t, cur_d.join(&n));
                    if r.is_ok() {
                        cur_name = n;
                    }
                    format!("rename path: {:?}", r.is_ok())
                } else {
                    "rename path: skipped".into()
                }
            }
            Hist::RenameParent => {
                let nd = cur_d.with_file_name(format!("{}x", cur_d.file_name().unwrap().to_string_lossy()));
                let r = std::fs::rename(&cur_d, &nd);
                if r.is_ok() {
                    cur_d = nd;
                }
                format!("rename parent: {:?}", r.is_ok())
            }
            Hist::ReplaceByFile | Hist::ReplaceByDir | Hist::ReplaceByLinkToDecoy => {
                let orig = cur_d.join("target");
                // move whatever is at the original name away and put something else there
                let _ = std::fs::rename(&orig, cur_d.join(format!("target.old{}", rep.history_applied.len())));
                if cur_name == "target" {
                    cur_name = format!("target.old{}", rep.history_applied.len());
                }
                let r = match h {
                    Hist::ReplaceByFile => std::fs::write(&orig, b"IMPOSTOR").is_ok(),
                    Hist::ReplaceByDir => std::fs::create_dir(&orig).is_ok(),
                    _ => std::os::unix::fs::symlink(sb.outside().join("secret.f"), &orig).is_ok(),
                };
                format!("{:?}: {}", h, r)
            }
            Hist::Unlink => {
                if exists {
                    let r = if case.kind == Kind::Dir { std::fs::remove_dir(&t).is_ok() } else { std::fs::remove_file(&t).is_ok() };
                    if r {
                        exists = false;
                    }
                    format!("unlink: {}", r)
                } else {
                    "unlink: skipped".into()
                }
            }
            Hist::RenameDeep => {
                if exists {
                    // 30 components of 200 bytes below the root, made step by step (no path of that length can be passed at once)
                    let name = CString::new(vec![b'd'; 200]).unwrap();
                    let mut cur = openat_raw(libc::AT_FDCWD, root.as_os_str().as_encoded_bytes(), libc::O_RDONLY | libc::O_DIRECTORY, 0).unwrap_or(-1);
                    let mut okc = cur >= 0;
                    for _ in 0..30 {
                        if !okc {
                            break;
                        }
                        unsafe { libc::mkdirat(cur, name.as_ptr(), 0o777) };
                        let n = unsafe { libc::openat(cur, name.as_ptr(), libc::O_RDONLY | libc::O_DIRECTORY | libc::O_CLOEXEC) };
                        unsafe { libc::fchmod(n, 0o777) };
                        close(cur);
                        cur = n;
                        okc = n >= 0;
                    }
                    let r = okc && unsafe { libc::renameat(libc::AT_FDCWD, c(&t).as_ptr(), cur, b"target\0".as_ptr() as *const libc::c_char) } == 0;
                    if cur >= 0 {
                        close(cur);
                    }
                    if r {
                        exists = false; // gone from the directories the later steps work in
                        rep.deep = true;
                    }
                    format!("rename below a 6000-byte directory chain: {}", r)
                } else {
                    "rename deep: skipped".into()
                }
            }
            Hist::RenameBack => {
                if exists && cur_name != "target" && !cur_d.join("target").exists() {
                    let r = std::fs::rename(&t, cur_d.join("target")).is_ok();
                    if r {
                        cur_name = "target".into();
                    }
                    format!("rename back: {}", r)
                } else {
                    "rename back: skipped".into()
                }
            }
        };
        rep.history_applied.push(note);
    }
    let before: Vec<String> = std::fs::read_dir(&cur_d).map(|rd| rd.flatten().map(|e| e.file_name().to_string_lossy().to_string()).collect()).unwrap_or_default();
    // reference: the kernel's own answer for opening this inode with these flags
    if !has_create(case.flags) {
        let mut fl = case.flags & !libc::O_NOFOLLOW;
        fl |= libc::O_NOCTTY | libc::O_CLOEXEC;
        let p = format!("self/fd/{}", hfd);
        match openat_raw(pristine, p.as_bytes(), fl, 0) {
            Ok(fd) => {
                let same = fstat(fd).ok().map(|s| Some(s.id) == rep.handle_id).unwrap_or(false);
                rep.reference = format!("Ok(same inode: {})", same);
                rep.reference_getfl = Some(fcntl_getfl(fd));
                close(fd);
            }
            Err(e) => {
                rep.reference = format!("Err({})", errno_name(e));
                rep.reference_errno = Some(e);
            }
        }
    }
    // the library call, on a worker thread with the kcfg filter
    let decoy = openat_raw(libc::AT_FDCWD, sb.outside().join("secret.f").as_os_str().as_encoded_bytes(), libc::O_PATH, 0).unwrap_or(-1);
    let direct = |case: &Case, hfd: i32| -> (Out, Option<bool>) {
        let (out, fd): (Out, Option<OwnedFd>) = if case.capi {
            let r = unsafe { pathrs_reopen(hfd, case.flags) };
            let (o, fd) = c_out(r, true);
            (o, fd.map(|f| unsafe { OwnedFd::from_raw_fd(f) }))
        } else {
            let h = Handle::from_fd(unsafe { OwnedFd::from_raw_fd(hfd) });
            let r = guarded(|| h.reopen(OpenFlags::from_bits_retain(case.flags)));
            let res = match r {
                Ok(f) => {
                    let fd = OwnedFd::from(f);
                    (Out::Fd(Obj::of_fd(fd.as_raw_fd())), Some(fd))
                }
                Err(o) => (o, None),
            };
            std::mem::forget(h);
            res
        };
        let same = match &out {
            Out::Fd(o) => Some(Some(o.id()) == fstat(hfd).ok().map(|s| s.id)),
            _ => None,
        };
        drop(fd);
        (out, same)
    };
    let (out, same, private) = if case.pidns && hfd >= 0 && decoy >= 0 {
        // Two nested pid namespaces. M is pid 1 of the first one and brings the library's
        // process-wide procfs handle into being there (so that "pid 1, tid 1" of that
        // procfs is M itself, visible whatever hidepid says). B is pid 1 / tid 1 of the
        // second one, inherits that handle, and reopens a handle that lives at a
        // descriptor number where M holds a decoy.
        let inner = || -> Result<(Out, Option<bool>), String> {
            unsafe {
                let r = pathrs_proc_readlink(PATHRS_PROC_SELF, b"cwd\0".as_ptr() as *const libc::c_char, std::ptr::null_mut(), 0);
                if r < 0 {
                    let _ = take_error(r);
                }
            }
            if unsafe { libc::unshare(libc::CLONE_NEWPID) } != 0 {
                return Err(format!("inner unshare(CLONE_NEWPID): {}", errno_name(errno())));
            }
            match run_in_child(60.0, || {
                let moved = unsafe { libc::dup3(hfd, decoy, libc::O_CLOEXEC) };
                if moved != decoy {
                    return (Out::Err { kind: "no-handle".into(), errno: None }, None);
                }
                direct(case, decoy)
            }) {
                ChildOut::Ok(r) => Ok(r),
                ChildOut::Crashed { sig } => Ok((Out::Panicked(format!("the process died with signal {}", sig)), None)),
                ChildOut::Exit { code, stderr_hint } => Err(format!("namespace child exit {}: {}", code, stderr_hint)),
                ChildOut::Timeout => Err("namespace child timed out".into()),
            }
        };
        if unsafe { libc::unshare(libc::CLONE_NEWPID) } != 0 {
            rep.setup_problem = Some(format!("unshare(CLONE_NEWPID): {}", errno_name(errno())));
            return rep;
        }
        match run_in_child(90.0, inner) {
            ChildOut::Ok(Ok((o, s))) => (o, s, true),
            ChildOut::Ok(Err(e)) => {
                rep.setup_problem = Some(e);
                return rep;
            }
            ChildOut::Crashed { sig } => (Out::Panicked(format!("the process died with signal {}", sig)), None, true),
            ChildOut::Exit { code, stderr_hint } => {
                rep.setup_problem = Some(format!("namespace child exit {}: {}", code, stderr_hint));
                return rep;
            }
            ChildOut::Timeout => {
                rep.setup_problem = Some("namespace child timed out".into());
                return rep;
            }
        }
    } else {
    with_session(case.kcfg, None, |s| {
        if case.private_fdtable && hfd >= 0 && decoy >= 0 {
            // the library's thread gets a copy of the table; afterwards the leader's
            // entry at the handle's number is replaced by a decoy
            let r = s.run(|_wg, _st| unsafe { libc::unshare(libc::CLONE_FILES) });
            if r == 0 {
                unsafe { libc::dup3(decoy, hfd, libc::O_CLOEXEC) };
            }
        }
        s.run(|_wg, _st| {
            let private = {
                // does this process get a private procfs? (diagnostic only)
                let r = unsafe { libc::syscall(430, b"proc\0".as_ptr(), 1u32) };
                if r >= 0 {
                    unsafe { libc::close(r as i32) };
                    true
                } else {
                    let r2 = unsafe { libc::syscall(428, libc::AT_FDCWD, b"/proc\0".as_ptr(), 1u32 | libc::O_CLOEXEC as u32) };
                    if r2 >= 0 {
                        unsafe { libc::close(r2 as i32) };
                        true
                    } else {
                        false
                    }
                }
            };
            let (out, fd): (Out, Option<OwnedFd>) = if case.capi {
                let r = unsafe { pathrs_reopen(hfd, case.flags) };
                let (o, fd) = c_out(r, true);
                (o, fd.map(|f| unsafe { OwnedFd::from_raw_fd(f) }))
            } else if hfd >= 0 {
                // SAFETY of the experiment: the Handle owns hfd from here on
                let h = Handle::from_fd(unsafe { OwnedFd::from_raw_fd(hfd) });
                let r = guarded(|| h.reopen(OpenFlags::from_bits_retain(case.flags)));
                let res = match r {
                    Ok(f) => {
                        let fd = OwnedFd::from(f);
                        (Out::Fd(Obj::of_fd(fd.as_raw_fd())), Some(fd))
                    }
                    Err(o) => (o, None),
                };
                std::mem::forget(h); // keep hfd open for the checks below
                res
            } else {
                (Out::Err { kind: "no-handle".into(), errno: None }, None)
            };
            let same = match &out {
                Out::Fd(o) => Some(Some(o.id()) == fstat(hfd).ok().map(|s| s.id)),
                _ => None,
            };
            drop(fd);
            (out, same, private)
        })
    })
    };
    rep.out = out;
    rep.same_inode = same;
    rep.private_procfs = private;
    let after: Vec<String> = std::fs::read_dir(&cur_d).map(|rd| rd.flatten().map(|e| e.file_name().to_string_lossy().to_string()).collect()).unwrap_or_default();
    rep.new_entries = after.into_iter().filter(|n| !before.contains(n)).collect();
    close(pristine);
    // (the sandbox is removed by the parent: we may be unprivileged or in another mount namespace)
    rep
}

pub fn judge(case: &Case, rep: &Report, stats: &mut Stats) -> Result<(), Fail> {
    if let Some(p) = &rep.setup_problem {
        stats.count("setup_skipped", 1);
        stats.class(&format!("setup-problem:{}", p.split(':').next().unwrap_or("")));
        return Ok(());
    }
    stats.eval();
    stats.class(&format!("kind:{:?}", case.kind));
    stats.class(&format!("fd:{}", case.fdnum));
    stats.class(&format!("outcome:{}", rep.out.class()));
    stats.class(&format!("proc:{}", match case.proc_state { ProcState::Normal => "normal", _ => "over-mounted" }));
    stats.class(if case.unprivileged { "caller:unprivileged" } else { "caller:root" });
    if case.private_fdtable {
        stats.class("caller:thread-with-private-descriptor-table");
    }
    if case.pidns {
        stats.class("caller:init-of-a-new-pid-namespace");
    }
    stats.class(if rep.private_procfs { "procfs:private-possible" } else { "procfs:host-only" });
    let over = matches!(case.proc_state, ProcState::OverMounted(_));
    if !case.history.is_empty() || (0..=2).contains(&case.fdnum) || over || has_create(case.flags) {
        stats.nontrivial_key(&format!("{:?}", case));
        stats.sample(|| json!({"case": format!("{:?}", case), "history": rep.history_applied, "mounts": rep.mounts, "reference": rep.reference, "outcome": rep.out.brief(), "same_inode": rep.same_inode}));
        stats.class_sample(&format!("{:?}:{}:{}", case.kind, rep.out.class(), if over { "over" } else { "normal" }), || json!({"case": format!("{:?}", case), "outcome": rep.out.brief()}));
    }
    let mk = |sig: String, msg: String| -> Fail {
        Fail::Violation(Violation {
            check: "reopen".into(),
            signature: sig,
            message: format!("reopen of a {:?} handle living at descriptor {} with flags 0x{:x}{} (kcfg {}, {}{}, /proc {:?})\n  history: {:?}\n  mounts: {:?}\n  kernel reference (open through the fd link on a pristine procfs): {}\n  library: {} (same inode: {:?})\n  {}", case.kind, case.fdnum, case.flags, if case.capi { " [C]" } else { "" }, case.kcfg.name(), if case.unprivileged { "unprivileged" } else { "root" }, if case.private_fdtable { ", thread with its own descriptor table (leader has a decoy at that number)" } else if case.pidns { ", init process of a new pid namespace (the library's procfs handle predates it)" } else { "" }, case.proc_state, rep.history_applied, rep.mounts, rep.reference, rep.out.brief(), rep.same_inode, msg),
            case: serde_json::to_value(case).unwrap(),
        })
    };
    if let Out::Panicked(m) = &rep.out {
        return Err(mk("panic".into(), format!("library panicked: {}", m)));
    }
    if !rep.new_entries.is_empty() {
        return Err(mk("created-entry".into(), format!("new directory entries appeared: {:?}", rep.new_entries)));
    }
    let ok = rep.out.is_ok();
    // never a different object
    if ok && rep.same_inode == Some(false) {
        return Err(mk(format!("different-inode:{}", if over { "over-mounted" } else { "normal" }), "the reopened descriptor refers to another inode than the handle".into()));
    }
    if case.fdnum < 0 {
        // invalid descriptor: must fail
        if ok {
            return Err(mk("bad-fd-accepted".into(), "a negative descriptor was accepted".into()));
        }
        return Ok(());
    }
    if has_create(case.flags) {
        if ok {
            return Err(mk(format!("creation-flags-accepted:{:?}", case.kind), "creation flags were accepted".into()));
        }
        return Ok(());
    }
    if case.kind == Kind::Symlink {
        if ok || rep.out.errno() != Some(libc::ELOOP) {
            // with host-only procfs and over-mounts, EXDEV-class errors are legitimate
            if over && !ok && (case.unprivileged || !rep.private_procfs || !matches!(case.kcfg, Kcfg::Full | Kcfg::NoOpenat2)) {
                return Ok(());
            }
            return Err(mk(format!("symlink-handle:{}", rep.out.class()), "a handle to a symlink must fail with ELOOP".into()));
        }
        return Ok(());
    }
    // over-mounted host /proc: privileged callers (private procfs) are unaffected,
    // the others may only see errors
    let may_see_mounts = over && (case.unprivileged || !rep.private_procfs || matches!(case.kcfg, Kcfg::NoMountApi | Kcfg::NoOpenat2NoMountApi | Kcfg::NoFsopen | Kcfg::NoOpenat2NoFsopen));
    if may_see_mounts && !ok {
        stats.class("over-mount-turned-into-error");
        return Ok(());
    }
    // otherwise: exactly what the kernel does for this inode and these flags
    match (&rep.out, rep.reference_errno) {
        (Out::Fd(o), None) => {
            const M: i32 = libc::O_ACCMODE | libc::O_APPEND | libc::O_NONBLOCK | libc::O_NOATIME | libc::O_DIRECTORY | libc::O_PATH | libc::O_SYNC;
            if let Some(rg) = rep.reference_getfl {
                if o.getfl & M != rg & M {
                    return Err(mk("getfl".into(), format!("F_GETFL 0x{:x} differs from the kernel reference 0x{:x}", o.getfl & M, rg & M)));
                }
            }
            if !o.cloexec {
                return Err(mk("not-cloexec".into(), "the reopened descriptor is not close-on-exec".into()));
            }
            Ok(())
        }
        (Out::Err { errno: Some(e), .. }, _) if rep.deep && *e == libc::ENAMETOOLONG => Err(mk("refused:ENAMETOOLONG:handle-deeper-than-PATH_MAX".into(), "the kernel opens this inode with these flags, the library refuses: it reads the /proc/thread-self/fd/N link text, which the kernel cannot produce for a path longer than PATH_MAX".into())),
        (Out::Err { errno, .. }, Some(e)) => {
            if *errno != Some(e) {
                return Err(mk(format!("errno:{}-vs-{}:fd{}", rep.out.class(), errno_name(e), if case.fdnum == 0 { "0" } else { "N" }), "the error differs from what the kernel reports for this inode and flags".into()));
            }
            Ok(())
        }
        (Out::Err { .. }, None) => Err(mk(format!("refused:{}:fd{}:{}", rep.out.class(), if case.fdnum == 0 { "0".to_string() } else { "N".to_string() }, if over { "over" } else { "normal" }), "the kernel opens this inode with these flags, the library refuses".into())),
        (_, Some(e)) => Err(mk(format!("accepted-but-kernel-says:{}", errno_name(e)), "the library succeeded where the kernel reference fails".into())),
        _ => Ok(()),
    }
}

pub fn check_once(case: &Case, stats: &mut Stats) -> Result<(), Fail> {
    let r = run_in_child(60.0, || child(case));
    // the child may have been unable to remove its sandbox (unprivileged / mount namespace)
    if let Ok(rd) = std::fs::read_dir(scratch_base()) {
        for e in rd.flatten() {
            let n = e.file_name().to_string_lossy().to_string();
            if n.ends_with(".c09") && n.starts_with("pv.") {
                // only our own children's (pid is in the name; stale ones are harmless)
                let pid: i32 = n.split('.').nth(1).and_then(|x| x.parse().ok()).unwrap_or(0);
                if unsafe { libc::kill(pid, 0) } != 0 {
                    rm_rf(&e.path());
                }
            }
        }
    }
    match r {
        ChildOut::Ok(rep) => judge(case, &rep, stats),
        ChildOut::Crashed { sig } => Err(Fail::Violation(Violation { check: "reopen".into(), signature: format!("crash:sig{}", sig), message: format!("child died with signal {}", sig), case: serde_json::to_value(case).unwrap() })),
        ChildOut::Exit { code, stderr_hint } => Err(Fail::Harness(format!("child exit {}: {}", code, stderr_hint))),
        ChildOut::Timeout => Err(Fail::Harness("child timed out".into())),
    }
}

pub fn check(case: &Case, stats: &mut Stats) -> Result<(), Fail> {
    stable(&check_once, case, stats, 2)
}

fn run_lane(ctx: &Ctx, lr: &mut LaneResult) {
    search(ctx, lr, "reopen", ctx.tier.pick(6000, 60000), strategy(), &check);
}

fn replay(_ctx: &Ctx, _check: &str, case: &Value) -> Result<(), Fail> {
    let case: Case = serde_json::from_value(case.clone()).map_err(|e| Fail::Harness(format!("bad case: {}", e)))?;
    let mut s = Stats::default();
    check(&case, &mut s)
}

pub const PROP: Prop = Prop {
    id: "C09",
    level: "exploration",
    rule: "inode type {file, dir, fifo, chr, symlink} x open flags (access mode x {APPEND, NOATIME, DIRECTORY, NOFOLLOW, CLOEXEC, SYNC, TRUNC, PATH} and the creation flags O_CREAT/O_EXCL/O_TMPFILE) x the descriptor number the handle lives at {0,1,2,3,7,255,1023, invalid} x calling thread {shares the process's descriptor table; has its own after unshare(CLONE_FILES) while the thread-group leader holds a decoy at the same number; is pid 1 / tid 1 of a fresh pid namespace while the library's procfs handle was made in the old one} x history of 0-4 steps (incl. a rename of the file below a directory chain deeper than PATH_MAX): rename / rename-parent / replace-by-file/dir/link-to-decoy / unlink / rename-back operations applied to the handle's path before reopening x host /proc state {normal; private mount namespace with tmpfs or bind mounts over /proc/<pid>/fd, the fd magic-link itself, /proc/<pid>/task, /proc/<pid>} x caller {root; uid 65534 without capabilities} x kernel configuration x {Handle::reopen, pathrs_reopen}. Oracle: a successful reopen has the handle's (dev,ino) -- never the impostor at the old name, never an over-mounted object; symlink handles => ELOOP; creation flags => error and no new directory entry; otherwise outcome, errno and F_GETFL equal the kernel's own open of the same inode with the same flags through the fd link of a pristine procfs; close-on-exec; callers that cannot get a private procfs may only get errors from over-mounts. non-trivial = non-empty history, fd in {0,1,2}, over-mounted /proc, or creation flags; distinct by the whole case",
    assumptions: &["the handle is created by the harness (O_PATH|O_NOFOLLOW open moved to the requested descriptor number) and wrapped with Handle::from_fd", "whether over-mounts are visible is decided from whether the caller can create a private procfs (fsopen/open_tree probe) and the kernel configuration"],
    lanes: |_| 16,
    run_lane,
    replay,
    extra: None,
    exhaustive: false,
};
