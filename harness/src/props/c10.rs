//! C10 — a failing system call anywhere inside an operation yields a clean error.

use crate::driver::*;
use crate::exec::*;
use crate::gate::*;
use crate::gen::*;
use crate::ops::*;
use crate::props::c03::frame_violations;
use crate::props::c11::judge_fds;
use crate::sandbox::*;
use crate::util::*;
use crate::workload::*;
use proptest::prelude::*;
use serde::{Deserialize, Serialize};
use serde_json::{json, Value};
use std::collections::{BTreeMap, BTreeSet};
use std::sync::atomic::{AtomicBool, Ordering};
use std::sync::Arc;

#[derive(Clone, Debug, PartialEq, Eq, Serialize, Deserialize)]
pub enum Fault {
    None,
    /// fail syscall #idx once with errno
    Single { idx: usize, errno: i32 },
    /// from syscall #idx on, fail every call of the given kind
    Sticky { from: usize, what: StickyKind, errno: i32 },
    /// the `count` openat2 calls at or after syscall #from fail with EAGAIN, later ones work again
    Burst { from: usize, count: usize },
}

#[derive(Clone, Copy, Debug, PartialEq, Eq, Serialize, Deserialize)]
pub enum StickyKind {
    Openat2,
    FdCreating,
}

#[derive(Clone, Debug, Serialize, Deserialize)]
pub struct Scenario {
    pub tree: TreeSpec,
    pub kcfg: Kcfg,
    pub no_symlinks: bool,
    pub step: WStep,
    pub cold: bool,
    /// replay: only this fault (otherwise the whole catalogue is enumerated)
    #[serde(default)]
    pub only: Option<Fault>,
}

/// An operation that is meant to succeed and do real work on this tree (a
/// fault can only turn work into "success without the work" if there is work).
pub fn success_step(tree: &TreeSpec, kind: u8, sel: u16, sel2: u16, capi: bool) -> WStep {
    let files: Vec<B> = tree.entries.iter().filter(|(_, n)| matches!(n, Node::File { .. } | Node::Fifo | Node::Chr)).map(|(p, _)| p.clone()).collect();
    let links: Vec<B> = tree.entries.iter().filter(|(_, n)| matches!(n, Node::Symlink { .. })).map(|(p, _)| p.clone()).collect();
    let dirs = tree.dirs();
    let all = tree.paths();
    let any = |v: &Vec<B>, s: u16| -> B { if v.is_empty() { B::new("missing") } else { v[pick(s, v.len())].clone() } };
    let newin = |s: u16, name: &str| -> B { dirs[pick(s, dirs.len())].join(name.as_bytes()) };
    // calls whose success is "the same object again": a fault must not turn them into
    // success with another object (reopen and the one-shot open go through the
    // magic-link follow of the internal procfs handle)
    match kind % 18 {
        14 => return WStep::Reopen { path: any(&all, sel), nofollow: false, flags: libc::O_PATH, capi },
        15 => return WStep::Reopen { path: any(&files, sel), nofollow: sel2 & 1 == 1, flags: libc::O_RDONLY | libc::O_NONBLOCK, capi },
        16 => return WStep::Root { capi, op: Op::Open { path: any(&all, sel), flags: libc::O_PATH } },
        17 => return WStep::ProcOpen { base: PBase::SelfBase, path: B::new(["fd/0", "cwd", "exe", "status"][sel as usize % 4]), flags: if sel2 & 1 == 1 { libc::O_PATH } else { libc::O_RDONLY }, follow: true, capi },
        _ => {}
    }
    let op = match kind % 18 {
        0 => Op::RemoveAll { path: any(&all, sel) },
        1 => Op::RemoveFile { path: any(&files, sel) },
        2 => Op::RemoveAll { path: any(&files, sel) },
        3 => Op::Mkdir { path: newin(sel, "made"), mode: 0o755 },
        4 => Op::Mkfile { path: newin(sel, "made"), mode: 0o644 },
        5 => Op::Symlink { path: newin(sel, "made"), target: B::new("a") },
        6 => Op::Hardlink { path: newin(sel, "made"), target: any(&files, sel2) },
        7 => Op::CreateFile { path: newin(sel, "made"), flags: libc::O_RDWR | libc::O_EXCL, mode: 0o600 },
        8 => Op::MkdirAll { path: newin(sel, "made/deeper/deepest"), mode: 0o755 },
        9 => Op::Rename { src: any(&all, sel), dst: newin(sel2, "moved"), flags: 0 },
        10 => Op::Resolve { path: any(&all, sel) },
        11 => Op::Open { path: any(&files, sel), flags: libc::O_RDONLY | libc::O_NONBLOCK },
        12 => Op::Readlink { path: any(&links, sel) },
        _ => Op::RemoveAll { path: any(&links, sel) },
    };
    WStep::Root { capi: capi && !op.has_nul(), op }
}

pub fn scenario() -> impl Strategy<Value = Scenario> {
    (
        tree_recipe(8),
        kcfg_any(),
        prop_oneof![6 => Just(false), 1 => Just(true)],
        wrecipe(),
        prop_oneof![5 => Just(false), 1 => Just(true)],
        (prop_oneof![3 => Just(true), 2 => Just(false)], any::<u8>(), any::<u16>(), any::<u16>(), prop_oneof![3 => Just(false), 1 => Just(true)]),
    )
        .prop_map(|(tr, kcfg, no_symlinks, r, cold, (directed, kind, sel, sel2, capi))| {
            let tree = build_tree(&tr);
            let step = if directed { success_step(&tree, kind, sel, sel2, capi && !no_symlinks) } else { build_wstep(&tree, &r, no_symlinks) };
            Scenario { tree, kcfg, no_symlinks, step, cold, only: None }
        })
}

#[derive(Clone, Debug, Serialize, Deserialize)]
pub struct RunRep {
    pub out: Out,
    pub label: Option<B>,
    pub ftype: Option<u32>,
    pub n_syscalls: usize,
    pub bound_exceeded: bool,
    pub injected: Vec<String>,
    pub trace_names: Vec<(String, bool, bool)>,
    pub tree_after: BTreeMap<B, String>,
    pub frame: Vec<String>,
    pub fd_problem: Option<String>,
}

fn injectable(sys: &Sys) -> bool {
    match sys.name.as_str() {
        // the kernel releases the descriptor whatever close() returns
        "close" | "dup" | "dup2" | "dup3" => false,
        "fcntl" => sys.args[1] as i32 == libc::F_DUPFD_CLOEXEC,
        _ => true,
    }
}

fn fd_creating(sys: &Sys) -> bool {
    desc(sys.nr).map(|d| d.fd_creating).unwrap_or(false) || (sys.name == "fcntl" && sys.args[1] as i32 == libc::F_DUPFD_CLOEXEC)
}

fn mutating(sys: &Sys) -> bool {
    desc(sys.nr).map(|d| d.mutating).unwrap_or(false) || (sys.name == "openat" && sys.flags & libc::O_CREAT as u64 != 0)
}

/// How often the library retries an openat2 that reports EAGAIN (src/resolvers/openat2.rs).
const RETRY_BOUND: usize = 16;

pub fn catalogue(name: &str, fdc: bool, mutating: bool) -> Vec<i32> {
    let mut v = vec![libc::ENOMEM, libc::EACCES, libc::EPERM, libc::EIO, libc::EINTR, libc::ENOSYS, libc::EAGAIN];
    if fdc {
        v.push(libc::EMFILE);
        v.push(libc::ENFILE);
    }
    if mutating {
        v.push(libc::ENOSPC);
        v.push(libc::EROFS);
    }
    if name == "read" || name == "getdents64" {
        v.retain(|e| *e != libc::ENOSYS && *e != libc::EPERM);
    }
    v
}

/// One run of the scenario in this process under `fault`.
pub fn run_one(sb: &Sandbox, sc: &Scenario, fault: &Fault, bound: usize) -> RunRep {
    sb.reset_root(&sc.tree);
    let before = Snapshot::take_path_light(&sb.base, &B::new("root"));
    let f = fault.clone();
    let fired = Arc::new(AtomicBool::new(false));
    let fired2 = fired.clone();
    let burst_left = Arc::new(std::sync::atomic::AtomicUsize::new(match fault {
        Fault::Burst { count, .. } => *count,
        _ => 0,
    }));
    let hook: Hook = Box::new(move |sys: &Sys, _c: &mut CallRec| {
        if !injectable(sys) {
            return Action::Continue;
        }
        match &f {
            Fault::None => Action::Continue,
            Fault::Single { idx, errno } => {
                if sys.idx == *idx && !fired2.swap(true, Ordering::SeqCst) {
                    Action::Errno(*errno)
                } else {
                    Action::Continue
                }
            }
            Fault::Burst { from, .. } => {
                if sys.idx >= *from && sys.name == "openat2" && burst_left.fetch_update(Ordering::SeqCst, Ordering::SeqCst, |n| n.checked_sub(1)).is_ok() {
                    Action::Errno(libc::EAGAIN)
                } else {
                    Action::Continue
                }
            }
            Fault::Sticky { from, what, errno } => {
                let hit = match what {
                    StickyKind::Openat2 => sys.name == "openat2",
                    StickyKind::FdCreating => fd_creating(sys),
                };
                if sys.idx >= *from && hit {
                    Action::Errno(*errno)
                } else {
                    Action::Continue
                }
            }
        }
    });
    let policy = Policy { observe: true, kinds: false, audit_fds: true, max_syscalls: bound, hook: Some(hook), ..Policy::default() };
    let rootpath = sb.root();
    let (rec, label, ftype) = with_session(sc.kcfg, Some(policy), |s| {
        let ro = s.run(|_wg, st| match open_root(&rootpath, sc.no_symlinks) {
            Ok(r) => {
                st.root = Some(r);
                None
            }
            Err(o) => Some(o),
        });
        if let Some(o) = ro {
            panic!("Root::open failed: {}", o.brief());
        }
        static WARMED: AtomicBool = AtomicBool::new(false);
        if !sc.cold && !WARMED.swap(true, Ordering::SeqCst) {
            s.run(|_wg, st| {
                let root = st.root.as_ref().unwrap();
                let _ = guarded(|| root.resolve(".")).map(|h| {
                    let _ = guarded(|| h.reopen(pathrs::flags::OpenFlags::O_RDONLY));
                });
                // the emulated walk's sysctl cache needs a symlink step
                let _ = guarded(|| root.resolve("/proc/self"));
                unsafe {
                    let r = crate::capi::pathrs_proc_readlink(crate::capi::PATHRS_PROC_SELF, b"cwd\0".as_ptr() as *const libc::c_char, std::ptr::null_mut(), 0);
                    if r < 0 {
                        let _ = crate::capi::take_error(r);
                    }
                }
            });
        }
        let (out, ret_fd, lent, lent_after, label, ftype) = s.run(|wg, st| {
            use std::os::unix::io::AsRawFd;
            let (out, fd, lent) = exec_wstep(wg, st, 0, &sc.step, &rootpath, sc.no_symlinks);
            let lent_after: Vec<Option<Ident>> = lent.iter().map(|&(f, _)| fstat(f).ok().map(|s| s.id)).collect();
            let ret = fd.as_ref().map(|f| f.as_raw_fd());
            let (label, ftype) = match &out {
                Out::Fd(o) => {
                    let snap = Snapshot::take_path(&rootpath);
                    (snap.label_of(o.id()), Some(o.ftype))
                }
                _ => (None, None),
            };
            drop(fd);
            st.fds.clear();
            (out, ret, lent, lent_after, label, ftype)
        });
        let call = s.take_calls().into_iter().find(|c| c.id == 0);
        s.run(|_wg, st| {
            st.root = None;
            st.procfs = None;
        });
        (StepRec { out, call, ret_fd, lent, lent_after }, label, ftype)
    });
    let after = Snapshot::take_path_light(&sb.base, &B::new("root"));
    let inside: BTreeSet<Ident> = before.sub(&B::new("root")).idents().union(&after.sub(&B::new("root")).idents()).cloned().collect();
    let frame = frame_violations(&before, &after, &inside);
    let mut tol = 0;
    let fd_problem = judge_fds(&rec, &mut tol).err().map(|(r, w)| format!("{}: {}", r, w));
    let call = rec.call.clone().unwrap_or_default();
    let base = sb.base.to_string_lossy().to_string();
    RunRep {
        out: rec.out.clone(),
        label,
        ftype,
        n_syscalls: call.n_syscalls,
        bound_exceeded: call.bound_exceeded,
        injected: call.trace.iter().filter(|s| s.injected.is_some()).map(|s| s.short()).collect(),
        trace_names: call.trace.iter().map(|s| (s.name.clone(), fd_creating(s), mutating(s))).zip(call.trace.iter().map(injectable)).map(|((n, f, m), inj)| (if inj { n } else { format!("-{}", n) }, f, m)).collect(),
        tree_after: after.sub(&B::new("root")).projected().into_iter().map(|(p, e)| (p, e.replace(&base, "@SB@"))).collect(),
        frame,
        fd_problem,
    }
}

pub fn child_warm_all(sb: &Sandbox, sc: &Scenario, faults: &[Fault], bound: usize) -> Vec<RunRep> {
    faults.iter().map(|f| run_one(sb, sc, f, bound)).collect()
}

fn run_fault(sb: &Sandbox, sc: &Scenario, faults: &[Fault], bound: usize) -> Result<Vec<Result<RunRep, String>>, Fail> {
    // cold: every run in its own process (fresh lazies); warm: one process
    if sc.cold {
        let mut out = vec![];
        for f in faults {
            let one = [f.clone()];
            match run_in_child(60.0, || child_warm_all(sb, sc, &one, bound)) {
                ChildOut::Ok(mut v) => out.push(Ok(v.remove(0))),
                ChildOut::Crashed { sig } => {
                    out.push(Err(format!("process died with signal {}", sig)));
                    break;
                }
                ChildOut::Exit { code, stderr_hint } => return Err(Fail::Harness(format!("child exit {}: {}", code, stderr_hint))),
                ChildOut::Timeout => return Err(Fail::Harness("child timed out".into())),
            }
        }
        Ok(out)
    } else {
        match run_in_child(600.0, || child_warm_all(sb, sc, faults, bound)) {
            ChildOut::Ok(v) => Ok(v.into_iter().map(Ok).collect()),
            ChildOut::Crashed { sig } => {
                // find the (first) culprit one by one; what comes after it is not run
                // (one crashing fault is a verdict, and a change that crashes under many
                // faults must not turn the search into hours of crash reruns)
                let mut out = vec![];
                for f in faults {
                    let one = [f.clone()];
                    match run_in_child(120.0, || child_warm_all(sb, sc, &one, bound)) {
                        ChildOut::Ok(mut v) => out.push(Ok(v.remove(0))),
                        ChildOut::Crashed { sig } => {
                            out.push(Err(format!("process died with signal {}", sig)));
                            break;
                        }
                        ChildOut::Timeout => {
                            out.push(Err("process did not return within 120 s (killed by the watchdog)".to_string()));
                            break;
                        }
                        _ => return Err(Fail::Harness(format!("warm child died with signal {} and the rerun failed", sig))),
                    }
                }
                Ok(out)
            }
            ChildOut::Exit { code, stderr_hint } => Err(Fail::Harness(format!("child exit {}: {}", code, stderr_hint))),
            ChildOut::Timeout => Err(Fail::Harness("child timed out".into())),
        }
    }
}

fn same_result(a: &RunRep, b: &RunRep) -> bool {
    let o = match (&a.out, &b.out) {
        (Out::Fd(_), Out::Fd(_)) => a.label == b.label && a.ftype == b.ftype,
        (Out::Bytes(x), Out::Bytes(y)) => x == y,
        (Out::Unit, Out::Unit) => true,
        _ => false,
    };
    o && a.tree_after == b.tree_after
}

pub fn check(sc: &Scenario, stats: &mut Stats) -> Result<(), Fail> {
    // the sandbox (with its decoy forest) is made once per scenario by this
    // process, which never runs library code; the runs only rebuild the root
    let sb = Sandbox::create("c10");
    let r = check_in(&sb, sc, stats);
    sb.destroy();
    r
}

fn check_in(sb: &Sandbox, sc: &Scenario, stats: &mut Stats) -> Result<(), Fail> {
    // baseline
    let base = match run_fault(sb, sc, &[Fault::None], 400_000)?.remove(0) {
        Ok(r) => r,
        Err(e) => return Err(Fail::Harness(format!("baseline run crashed: {}", e))),
    };
    let n = base.trace_names.len();
    // exhaustive enumeration is quadratic in the trace length: a call that needs
    // thousands of system calls (4 KiB paths) is left to the sampled checks
    if n > 1500 && sc.only.is_none() {
        stats.count("scenarios_skipped_trace_over_1500_syscalls", 1);
        return Ok(());
    }
    let comps = match &sc.step {
        WStep::Root { op, .. } => op.paths().iter().map(|p| p.0.split(|&c| c == b'/').count()).sum::<usize>(),
        _ => 4,
    };
    let bound = 16 * (comps + 1) * n.max(8) + 4096;
    let faults: Vec<Fault> = match &sc.only {
        Some(f) => vec![f.clone()],
        None => {
            let mut v = vec![];
            for (i, (name, fdc, mutating)) in base.trace_names.iter().enumerate() {
                if name.starts_with('-') {
                    continue;
                }
                for e in catalogue(name, *fdc, *mutating) {
                    v.push(Fault::Single { idx: i, errno: e });
                }
            }
            // sticky sequences: EAGAIN on every openat2 from i; fd exhaustion from i
            let o2: Vec<usize> = base.trace_names.iter().enumerate().filter(|(_, (n, _, _))| n == "openat2").map(|(i, _)| i).collect();
            for i in o2 {
                v.push(Fault::Sticky { from: i, what: StickyKind::Openat2, errno: libc::EAGAIN });
                // exactly one exhausted retry loop (the library retries EAGAIN 16 times), then the kernel co-operates again
                v.push(Fault::Burst { from: i, count: RETRY_BOUND });
            }
            let fdc: Vec<usize> = base.trace_names.iter().enumerate().filter(|(_, (_, f, _))| *f).map(|(i, _)| i).collect();
            for i in fdc {
                v.push(Fault::Sticky { from: i, what: StickyKind::FdCreating, errno: libc::EMFILE });
                v.push(Fault::Sticky { from: i, what: StickyKind::FdCreating, errno: libc::ENFILE });
            }
            v
        }
    };
    stats.count("scenarios", 1);
    stats.count("baseline_syscalls", n as u64);
    stats.class(&format!("op:{}", sc.step.name()));
    stats.class(if sc.cold { "start:cold" } else { "start:warm" });
    stats.class(&format!("kcfg:{}", sc.kcfg.name()));
    stats.class(&format!("baseline:{}", base.out.class()));
    let t0 = now_s();
    let reps = run_fault(sb, sc, &faults, bound)?;
    if std::env::var("PV_DEBUG_SLOW").is_ok() {
        eprintln!("C10 scenario {} kcfg={} cold={} baseline_syscalls={} faults={} took {:.1}s", sc.step.brief(), sc.kcfg.name(), sc.cold, n, faults.len(), now_s() - t0);
    }
    let scen_key = format!("{}|{:?}|{:?}|{}|{}", sc.tree.hash(), sc.step, sc.kcfg, sc.cold, sc.no_symlinks);
    for (f, r) in faults.iter().zip(reps.iter()) {
        stats.eval();
        let fname = match f {
            Fault::Single { idx, errno } => format!("single:{}:{}", base.trace_names.get(*idx).map(|x| x.0.clone()).unwrap_or_default(), errno_name(*errno)),
            Fault::Sticky { what, errno, .. } => format!("sticky:{:?}:{}", what, errno_name(*errno)),
            Fault::Burst { count, .. } => format!("burst:openat2:EAGAINx{}", count),
            Fault::None => "none".into(),
        };
        let mk = |sig: String, msg: String| -> Fail {
            let mut single = sc.clone();
            single.only = Some(f.clone());
            Fail::Violation(Violation {
                check: "fault".into(),
                signature: sig,
                message: format!("{} (kcfg {}, {} start{}) under {:?} [{}]\n  baseline ({} syscalls): {}\n  {}", sc.step.brief(), sc.kcfg.name(), if sc.cold { "cold" } else { "warm" }, if sc.no_symlinks { ", NO_SYMLINKS" } else { "" }, f, fname, n, base.out.brief(), msg),
                case: serde_json::to_value(&single).unwrap(),
            })
        };
        let r = match r {
            Ok(r) => r,
            Err(e) => return Err(mk(format!("crash:{}:{}", sc.step.name(), fname), format!("the {}", e))),
        };
        stats.class(&format!("faulted-outcome:{}", r.out.class()));
        // non-trivial: the injection really happened on a call that would have succeeded
        if !r.injected.is_empty() {
            stats.nontrivial_key(&format!("{}|{:?}", scen_key, f));
            stats.class(&format!("injected:{}", fname.split(':').take(2).collect::<Vec<_>>().join(":")));
            stats.sample(|| json!({"op": sc.step.brief(), "kcfg": sc.kcfg.name(), "cold": sc.cold, "fault": format!("{:?}", f), "injected_at": r.injected, "baseline": base.out.brief(), "outcome": r.out.brief(), "syscalls": r.n_syscalls}));
            stats.class_sample(&format!("{}:{}", fname, r.out.class()), || json!({"op": sc.step.brief(), "fault": format!("{:?}", f), "injected_at": r.injected, "outcome": r.out.brief()}));
        }
        if let Out::Panicked(m) = &r.out {
            return Err(mk(format!("panic:{}:{}", sc.step.name(), fname), format!("library panicked: {}\n  injected: {:?}", m, r.injected)));
        }
        if r.bound_exceeded {
            return Err(mk(format!("unbounded:{}:{}", sc.step.name(), fname), format!("more than {} system calls after the fault (no termination / unbounded retry)", bound)));
        }
        if !r.frame.is_empty() {
            return Err(mk(format!("outside-touched:{}:{}", sc.step.name(), fname), r.frame.join("\n  ")));
        }
        // a whole retry loop was exhausted (the same lookup got EAGAIN RETRY_BOUND times in a
        // row): that surfaces as a safety violation, never as a partial result the call goes on with
        if let Fault::Burst { count, .. } = f {
            if r.injected.len() == *count && r.injected.windows(2).all(|w| w[0] == w[1]) {
                stats.class("burst:retry-loop-exhausted");
                let safety = matches!(&r.out, Out::Err { kind, .. } if kind == "safety");
                if !safety {
                    return Err(mk(format!("eagain-exhaustion-not-surfaced:{}", sc.step.name()), format!("openat2 answered EAGAIN to all {} attempts of one lookup, yet the call returned {} instead of a safety violation\n  injected: {} x {:?}", count, r.out.brief(), count, r.injected.first())));
                }
            }
        }
        if let Some(p) = &r.fd_problem {
            return Err(mk(format!("fdtable:{}:{}", sc.step.name(), fname), format!("{}\n  injected: {:?}", p, r.injected)));
        }
        if r.out.is_ok() && !r.injected.is_empty() && !same_result(r, &base) {
            // success under a fault must be the full, un-faulted result
            let mut diff = vec![];
            for (p, e) in &base.tree_after {
                if r.tree_after.get(p) != Some(e) {
                    diff.push(format!("baseline has {} {}", p, e));
                }
            }
            for (p, e) in &r.tree_after {
                if !base.tree_after.contains_key(p) {
                    diff.push(format!("faulted run has {} {}", p, e));
                }
            }
            return Err(mk(
                format!("partial-success:{}:{}", sc.step.name(), fname),
                format!("call reported success ({}; object {:?}) but the result differs from the un-faulted run ({}; object {:?})\n  injected: {:?}\n  {}", r.out.brief(), r.label, base.out.brief(), base.label, r.injected, diff.join("\n  ")),
            ));
        }
        if let Fault::Sticky { what: StickyKind::Openat2, .. } = f {
            if !r.injected.is_empty() && r.out.is_ok() {
                stats.class("sticky-EAGAIN-tolerated-with-full-result");
            }
        }
    }
    Ok(())
}

fn run_lane(ctx: &Ctx, lr: &mut LaneResult) {
    let n = ctx.tier.pick(96, 1280);
    search_opts(ctx, lr, "fault", n, scenario(), &check, 6);
}

fn replay(_ctx: &Ctx, _check: &str, case: &Value) -> Result<(), Fail> {
    let sc: Scenario = serde_json::from_value(case.clone()).map_err(|e| Fail::Harness(format!("bad case: {}", e)))?;
    let mut s = Stats::default();
    check(&sc, &mut s)
}

pub const PROP: Prop = Prop {
    id: "C10",
    level: "fault_enumeration",
    rule: "generated scenario = small tree x one library call (every Root operation via Rust or C API, Root::open, try_clone, resolve+reopen, procfs open/open_follow/readlink) x kernel configuration x {cold: fresh process, nothing initialised; warm}. The scenario is traced once; then for EVERY system call index of the trace x EVERY errno of the catalogue applicable to that call (ENOMEM EACCES EPERM EIO EINTR ENOSYS EAGAIN; +EMFILE ENFILE on descriptor-creating calls; +ENOSPC EROFS on mutating calls) the call is re-run from scratch with exactly that failure injected by the seccomp supervisor; plus sequences from every index: EAGAIN on all later openat2, EAGAIN on exactly the next 16 openat2 calls (one exhausted retry loop, then the kernel co-operates again), EMFILE/ENFILE on all descriptor-creating calls. Oracle: the call returns (syscall-count bound), no panic, no crash, nothing outside the root changed (C03 frame), descriptor table intact (C11), and if it reports success its result and the resulting tree are identical to the un-faulted run; 16 EAGAINs in a row for one lookup => the call fails with a safety violation. evaluations = injected runs (exhaustive per scenario); non-trivial = the fault actually hit; distinct by (scenario, fault)",
    assumptions: &["faults are injected at the system-call boundary of the library's thread; close/dup are never failed (the kernel releases the descriptor regardless)", "semantic errnos the library interprets (ENOENT EEXIST ENOTDIR ELOOP EXDEV) are not faults"],
    lanes: |_| 16,
    run_lane,
    replay,
    extra: Some(|_lr| json!({"exhaustive_scope": "all (syscall index x errno) single faults and all sticky EAGAIN/EMFILE/ENFILE start indices of each generated scenario"})),
    exhaustive: true,
};

pub fn bench() {
    use crate::sandbox::Node;
    let tree = TreeSpec { entries: vec![(B::new("a"), Node::Dir { mode: 0o755 }), (B::new("a/l"), Node::Symlink { body: B::new("../b") }), (B::new("b"), Node::File { mode: 0o644, content: B::new("x") })] };
    let sc = Scenario { tree, kcfg: Kcfg::NoOpenat2NoMountApi, no_symlinks: false, step: WStep::Root { op: Op::Resolve { path: B::new("a/l") }, capi: false }, cold: false, only: None };
    let r = run_in_child(600.0, || {
        let sb = Sandbox::create("bench");
        let t0 = now_s();
        for _ in 0..50 {
            sb.reset_root(&sc.tree);
        }
        let t1 = now_s();
        for _ in 0..50 {
            let _ = Snapshot::take_path_light(&sb.base, &B::new("root"));
        }
        let t2 = now_s();
        for _ in 0..50 {
            let _ = run_one(&sb, &sc, &Fault::None, 100000);
        }
        let t3 = now_s();
        for _ in 0..50 {
            with_session(sc.kcfg, Some(Policy::default()), |s| s.run(|_, _| 1));
        }
        let t4 = now_s();
        sb.destroy();
        format!("reset {:.2}ms snapshot {:.2}ms run_one {:.2}ms empty-session {:.2}ms", (t1 - t0) * 20.0, (t2 - t1) * 20.0, (t3 - t2) * 20.0, (t4 - t3) * 20.0)
    });
    println!("{:?}", r);
}
