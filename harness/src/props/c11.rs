//! C11 — calls leave the descriptor table unchanged except for the returned fd.

use crate::driver::*;
use crate::exec::*;
use crate::gate::*;
use crate::workload::*;
use serde_json::{json, Value};

/// Judge the descriptor table around one call. `tolerate_global` = the
/// library's process-lifetime procfs root may appear (first use inside the call).
pub fn judge_fds(rec: &StepRec, tolerate_global: &mut u32) -> Result<Vec<&'static str>, (String, String)> {
    let call = match &rec.call {
        Some(c) => c,
        None => return Ok(vec![]),
    };
    let mut notes = vec![];
    let before = &call.fds_before;
    let after = &call.fds_after;
    if before.is_empty() && after.is_empty() {
        return Ok(notes);
    }
    // nothing that was open may have been closed or replaced
    for b in before {
        match after.iter().find(|a| a.fd == b.fd) {
            None => return Err(("closed".into(), format!("descriptor {} ({} ino {}) was open before the call and is closed after it", b.fd, crate::util::ftype_name(b.ftype), b.ino))),
            Some(a) => {
                if (a.dev, a.ino) != (b.dev, b.ino) {
                    return Err(("replaced".into(), format!("descriptor {} refers to a different object after the call (ino {} -> {})", b.fd, b.ino, a.ino)));
                }
                if a.cloexec != b.cloexec {
                    return Err(("fdflags-changed".into(), format!("FD_CLOEXEC of pre-existing descriptor {} changed", b.fd)));
                }
            }
        }
    }
    let mut new: Vec<&FdInfo> = after.iter().filter(|a| !before.iter().any(|b| b.fd == a.fd)).collect();
    if let Some(r) = rec.ret_fd {
        match new.iter().position(|a| a.fd == r) {
            Some(i) => {
                let a = new.remove(i);
                if !a.cloexec {
                    return Err(("ret-not-cloexec".into(), format!("returned descriptor {} is not close-on-exec", r)));
                }
                notes.push("returned-fd");
            }
            None => {
                if r < 128 {
                    return Err(("ret-missing".into(), format!("returned descriptor {} is not a new entry of the table", r)));
                }
            }
        }
    }
    // the library's own process-lifetime procfs root (ino 1 of a procfs)
    new.retain(|a| {
        if a.procfs && a.ino == 1 && a.cloexec && *tolerate_global < 1 {
            *tolerate_global += 1;
            notes.push("global-procfs-handle-created");
            false
        } else {
            true
        }
    });
    if let Some(a) = new.first() {
        return Err((
            "leak".into(),
            format!("descriptor {} ({}{} ino {}, cloexec={}) is left open by the call and was not returned", a.fd, if a.procfs { "procfs " } else { "" }, crate::util::ftype_name(a.ftype), a.ino, a.cloexec),
        ));
    }
    for ((fd, id), aft) in rec.lent.iter().zip(rec.lent_after.iter()) {
        match aft {
            None => return Err(("lent-closed".into(), format!("descriptor {} lent to the call is closed afterwards", fd))),
            Some(a) if a != id => return Err(("lent-replaced".into(), format!("descriptor {} lent to the call refers to another object afterwards", fd))),
            _ => {}
        }
    }
    Ok(notes)
}

pub fn judge(case: &WCase, rep: &WReport, stats: &mut Stats) -> Result<(), Fail> {
    if let Some(f) = &rep.fatal {
        return Err(Fail::Harness(f.clone()));
    }
    let mut tolerate = 0u32;
    for (i, (step, rec)) in case.steps.iter().zip(rep.steps.iter()).enumerate() {
        stats.eval();
        stats.class(&format!("op:{}", step.name()));
        stats.class(if rec.out.is_ok() { "call:ok" } else { "call:failed" });
        if let Out::Panicked(m) = &rec.out {
            stats.class("call:panicked");
            let _ = m;
        }
        match judge_fds(rec, &mut tolerate) {
            Ok(notes) => {
                for n in notes {
                    stats.class(n);
                }
            }
            Err((rule, why)) => {
                let single = WCase { tree: case.tree.clone(), kcfg: case.kcfg, no_symlinks: case.no_symlinks, steps: case.steps[..=i].to_vec() };
                return Err(Fail::Violation(Violation {
                    check: "fdtable".into(),
                    signature: format!("{}:{}:{}", rule, step.name(), if rec.out.is_ok() { "ok" } else { "err" }),
                    message: format!("after {} (kcfg {}) -> {}: {}", step.brief(), case.kcfg.name(), rec.out.brief(), why),
                    case: serde_json::to_value(&single).unwrap(),
                }));
            }
        }
        if !rec.out.is_ok() {
            stats.nontrivial_key(&format!("{:?}|{}|{:?}", step, case.tree.hash(), case.kcfg));
            stats.sample(|| json!({"call": step.brief(), "kcfg": case.kcfg.name(), "outcome": rec.out.brief(), "fds_before": rec.call.as_ref().map(|c| c.fds_before.len()), "fds_after": rec.call.as_ref().map(|c| c.fds_after.len()), "returned_fd": rec.ret_fd}));
            stats.class_sample(&format!("{}:{}", step.name(), rec.out.class()), || json!({"call": step.brief(), "outcome": rec.out.brief()}));
        }
    }
    Ok(())
}

pub fn child(case: &WCase) -> WReport {
    let policy = Policy { observe: false, kinds: false, ..Policy::default() };
    run_workload(case, policy, "c11", false)
}

pub fn check(case: &WCase, stats: &mut Stats) -> Result<(), Fail> {
    match run_in_child(60.0, || child(case)) {
        ChildOut::Ok(rep) => judge(case, &rep, stats),
        ChildOut::Crashed { sig } => Err(Fail::Harness(format!("child died with signal {}", sig))),
        ChildOut::Exit { code, stderr_hint } => Err(Fail::Harness(format!("child exit {}: {}", code, stderr_hint))),
        ChildOut::Timeout => Err(Fail::Harness("child timed out".into())),
    }
}

fn run_lane(ctx: &Ctx, lr: &mut LaneResult) {
    let n = ctx.tier.pick(6000, 60000);
    search(ctx, lr, "fdtable", n, wcase(8), &check);
}

fn replay(_ctx: &Ctx, _check: &str, case: &Value) -> Result<(), Fail> {
    let case: WCase = serde_json::from_value(case.clone()).map_err(|e| Fail::Harness(format!("bad case: {}", e)))?;
    let mut s = Stats::default();
    check(&case, &mut s)
}

pub const PROP: Prop = Prop {
    id: "C11",
    level: "exploration",
    rule: "generated tree x sequence of 1-8 library calls (every Root operation via Rust and C API incl. invalid and failing ones, Root::open, try_clone, resolve+reopen, procfs open/open_follow/readlink) x six kernel configurations, cold start (first-use initialisation happens inside a call); the supervisor thread lists the shared descriptor table (fd -> dev, ino, type, FD_CLOEXEC, F_GETFL, procfs?) when the call starts and when it has returned and dropped everything but its result. Oracle: after = before + at most the returned descriptor, which is close-on-exec; nothing closed, replaced or re-flagged; descriptors lent to the call still name the same object; the library's own process-lifetime procfs root (ino 1 of a procfs, close-on-exec) is tolerated once per process (a second long-lived procfs root would be a leak). The same judge also runs inside the C10 (faults) and C02/C03 (attacker) drivers. non-trivial = failing calls; distinct by (call, tree hash, kcfg)",
    assumptions: &["descriptor numbers below 128 are audited (the child starts with about six descriptors)", "the audit happens at call boundaries; descriptors opened and closed inside a call are C05's business"],
    lanes: |_| 16,
    run_lane,
    replay,
    extra: None,
    exhaustive: false,
};
