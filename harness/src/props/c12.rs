//! C12 — mkdir_all creates exactly the missing directories and converges under races.

use crate::driver::*;
use crate::exec::*;
use crate::gate::*;
use crate::gen::*;
use crate::ops::*;
use crate::sandbox::*;
use crate::sched::*;
use crate::util::*;
use proptest::collection::vec;
use proptest::prelude::*;
use serde::{Deserialize, Serialize};
use serde_json::{json, Value};
use std::collections::BTreeSet;
use std::os::unix::io::AsRawFd;

#[derive(Clone, Debug, Serialize, Deserialize)]
pub struct Case {
    pub tree: TreeSpec,
    pub kcfg: Kcfg,
    pub no_symlinks: bool,
    pub umask: u32,
    /// one path per caller (1 = sequential)
    pub paths: Vec<B>,
    pub mode: u32,
    /// concurrent callers may ask for different (valid) modes
    #[serde(default)]
    pub modes: Vec<u32>,
    pub capi: bool,
    pub schedule: Vec<u8>,
}

fn mk_mode() -> impl Strategy<Value = u32> {
    prop_oneof![
        8 => Just(0o755u32),
        4 => Just(0o700u32),
        3 => Just(0o1777u32),
        1 => Just(0o000u32),
        3 => Just(0o777u32),
        2 => Just(0o750u32),
        1 => Just(0o2755u32),
        1 => Just(0o4755u32),
        1 => Just(0o40755u32),
        1 => Just(0o10644u32),
    ]
}

pub fn strategy(concurrent: bool) -> impl Strategy<Value = Case> {
    (
        tree_recipe(12),
        prop_oneof![3 => Just(Kcfg::NoMountApi), 3 => Just(Kcfg::NoOpenat2NoMountApi), 1 => Just(Kcfg::NoOpenat2), 1 => Just(Kcfg::Full)],
        prop_oneof![8 => Just(false), 1 => Just(true)],
        prop_oneof![3 => Just(0o022u32), 1 => Just(0o077u32), 1 => Just(0u32), 1 => Just(0o027u32)],
        (
            // mostly "<something in the tree>/<one to three fresh or odd components>"
            prop_oneof![
                3 => (any::<u16>(), any::<u8>(), 0u8..10).prop_map(|(sel, name, trail)| NewPath::NewIn { sel, name, trail }),
                1 => path_recipe().prop_map(NewPath::Any),
                6 => (any::<u16>(), vec(any::<u8>(), 1..4), 0u8..10).prop_map(|(sel, names, trail)| NewPath::Deep { sel, names, trail }),
            ],
            0u8..4,
            vec(any::<u8>(), 3..=3),
            2usize..4,
        ),
        mk_mode(),
        prop_oneof![4 => Just(false), 1 => Just(true)],
        vec(any::<u8>(), 0..40),
    )
        .prop_map(move |(tr, kcfg, no_symlinks, umask, (p, rel, extra, workers), mode, capi, schedule)| {
            let tree = build_tree(&tr);
            let path = build_new_path(&tree, &p);
            if !concurrent {
                let capi = capi && !no_symlinks && !path.has_nul();
                return Case { tree, kcfg, no_symlinks, umask, paths: vec![path], mode, modes: vec![], capi, schedule: vec![] };
            }
            // (giant paths are the sequential part's business)
            let path = if path.len() > 600 { B::new("a/new0") } else { path };
            // equal / prefix-related / sibling paths for the other callers
            let mut paths = vec![path.clone()];
            for w in 1..workers {
                let mut q = path.clone();
                match (rel as usize + w) % 4 {
                    0 => {}
                    1 => q = q.join(FRESHN[extra.first().copied().unwrap_or(0) as usize % FRESHN.len()].as_bytes()),
                    2 => q = crate::gen::split_parent(&q).0.join(FRESHN[extra.get(1).copied().unwrap_or(1) as usize % FRESHN.len()].as_bytes()),
                    _ => q = crate::gen::split_parent(&q).0,
                }
                paths.push(q);
            }
            let table = [0o755u32, 0o700, 0o1777, 0o750, 0o711];
            let modes: Vec<u32> = (0..paths.len()).map(|w| if extra.len() > 2 && w > 0 { table[(extra[2] as usize + w) % table.len()] } else { mode & 0o1777 }).collect();
            Case { tree, kcfg, no_symlinks, umask, paths, mode: mode & 0o1777, modes, capi: false, schedule }
        })
}

const FRESHN: [&str; 4] = ["new0", "new1", "z", "a"];

#[derive(Clone, Debug, Serialize, Deserialize)]
pub struct CallerRep {
    pub out: Out,
    /// label of the returned handle in the after-snapshot (sandbox-relative)
    pub label: Option<B>,
    /// does the handle equal the in-root resolution of the path afterwards?
    pub matches_resolution: Option<bool>,
    pub resolution: String,
}

#[derive(Clone, Debug, Serialize, Deserialize)]
pub struct Report {
    pub callers: Vec<CallerRep>,
    pub added: Vec<(B, String, u32, u32, u32)>,
    pub removed: Vec<B>,
    pub modified: Vec<B>,
    pub outside_changed: Vec<String>,
    /// problems with the set of created directories (chain shape, type, mode …)
    pub shape: Vec<String>,
    pub existing_prefix_via_link_or_dotdot: bool,
    pub preemptions: usize,
    pub blocked_steps: usize,
    pub sched_problem: Option<String>,
}

pub fn child(case: &Case) -> Report {
    unsafe { libc::umask(case.umask) };
    let sb = Sandbox::create("c12");
    sb.materialise(&case.tree, &sb.root());
    let before = Snapshot::take_path(&sb.base);
    let rootfd = openat_raw(libc::AT_FDCWD, sb.root().as_os_str().as_encoded_bytes(), libc::O_PATH | libc::O_DIRECTORY, 0).expect("open root");
    let rootpath = sb.root();
    let mode_of = |i: usize| -> u32 { case.modes.get(i).copied().unwrap_or(case.mode) };
    let ops: Vec<Op> = case.paths.iter().enumerate().map(|(i, p)| Op::MkdirAll { path: p.clone(), mode: mode_of(i) }).collect();
    // classification: does the deepest existing prefix get reached through a link or '..'?
    let existing_prefix_via_link_or_dotdot = {
        let p = &case.paths[0];
        let comps: Vec<&[u8]> = p.0.split(|&c| c == b'/').collect();
        let mut via = false;
        for i in (1..=comps.len()).rev() {
            let pre = B(comps[..i].join(&b'/'));
            if pre.has_nul() {
                continue;
            }
            if let KOut::Obj { .. } = k_lookup(rootfd, &Op::Resolve { path: pre.clone() }, false) {
                let strict = k_lookup(rootfd, &Op::Resolve { path: pre.clone() }, true);
                via = matches!(strict, KOut::Err(_)) || pre.0.split(|&c| c == b'/').any(|c| c == b"..");
                break;
            }
        }
        via
    };
    let mut handles: Vec<Option<Ident>> = vec![];
    let (outs, sched) = if ops.len() == 1 {
        let (out, id) = with_session(case.kcfg, None, |s| {
            let ro = s.run(|_wg, st| match open_root(&rootpath, case.no_symlinks) {
                Ok(r) => {
                    st.root = Some(r);
                    None
                }
                Err(o) => Some(o),
            });
            if let Some(o) = ro {
                panic!("Root::open failed: {}", o.brief());
            }
            let r = s.run(|_wg, st| {
                let (out, fd) = exec_op(st.root.as_ref().unwrap(), &ops[0], case.capi);
                let id = fd.as_ref().and_then(|f| fstat(f.as_raw_fd()).ok()).map(|s| s.id);
                drop(fd);
                (out, id)
            });
            s.run(|_wg, st| st.root = None);
            r
        });
        handles.push(id);
        (vec![out], SchedStats::default())
    } else {
        let (outs, st) = run_scheduled(case.kcfg, &rootpath, case.no_symlinks, &ops, &case.schedule);
        for o in &outs {
            handles.push(match o {
                Out::Fd(obj) => Some(obj.id()),
                _ => None,
            });
        }
        (outs, st)
    };
    let after = Snapshot::take_path(&sb.base);
    let mut callers = vec![];
    for (i, out) in outs.iter().enumerate() {
        let p = &case.paths[i];
        // The empty path has no component to create; both back-ends hand back
        // the root for it. openat2 itself has no notion of resolving "" (ENOENT),
        // so the comparison is made with "." there (documented in DESIGN.md).
        let pp = if p.0.is_empty() { B::new(".") } else { p.clone() };
        let res = if p.has_nul() { KOut::Err(libc::EINVAL) } else { k_lookup(rootfd, &Op::Resolve { path: pp }, case.no_symlinks) };
        let (label, matches) = match (&handles[i], out) {
            // paths of PATH_MAX or more cannot be given to the kernel oracle (outside the domain)
            (Some(id), Out::Fd(_)) if p.len() >= 4095 => (after.label_of(*id), None),
            (Some(id), Out::Fd(_)) => (after.label_of(*id), Some(matches!(&res, KOut::Obj { id: k, ftype, .. } if k == id && *ftype == libc::S_IFDIR))),
            _ => (None, None),
        };
        callers.push(CallerRep { out: out.clone(), label, matches_resolution: matches, resolution: res.brief() });
    }
    let mut added = vec![];
    let mut removed = vec![];
    let mut modified = vec![];
    let mut outside_changed = vec![];
    for c in changes(&before, &after) {
        let inroot = |p: &B| under(p, &B::new("root"));
        match c {
            Change::Added(p) => {
                if inroot(&p) {
                    let e = &after.map[&p];
                    added.push((p.clone(), ftype_name(e.ftype).to_string(), e.mode & 0o7777, e.uid, e.gid));
                } else {
                    outside_changed.push(format!("+ {}", p));
                }
            }
            Change::Removed(p) => {
                if inroot(&p) {
                    removed.push(p)
                } else {
                    outside_changed.push(format!("- {}", p))
                }
            }
            Change::Modified(p) => {
                if inroot(&p) {
                    modified.push(p)
                } else {
                    outside_changed.push(format!("~ {}", p))
                }
            }
        }
    }
    // shape of what was created
    let mut shape = vec![];
    let added_set: BTreeSet<B> = added.iter().map(|a| a.0.clone()).collect();
    for (p, t, mode, _uid, gid) in &added {
        if t != "dir" {
            shape.push(format!("created a non-directory: {} ({})", p, t));
            continue;
        }
        let (par, name) = crate::gen::split_parent(p);
        let pe = match after.map.get(&par) {
            Some(e) => e,
            None => continue,
        };
        // mode = requested & ~umask, setgid inherited from the parent
        let mut wants: Vec<u32> = (0..case.paths.len()).map(|i| mode_of(i) & 0o1777 & !case.umask).collect();
        if pe.mode & libc::S_ISGID != 0 {
            for w in wants.iter_mut() {
                *w |= libc::S_ISGID;
            }
            if *gid != pe.gid {
                shape.push(format!("{}: gid {} not inherited from setgid parent (gid {})", p, gid, pe.gid));
            }
        }
        if !wants.contains(mode) {
            shape.push(format!("{}: mode {:o}, expected one of {:?} (umask {:o}, parent mode {:o})", p, mode, wants.iter().map(|w| format!("{:o}", w)).collect::<Vec<_>>(), case.umask, pe.mode & 0o7777));
        }
        // every created name is a component of one of the requested paths
        let named = case.paths.iter().any(|q| q.0.split(|&c| c == b'/').any(|c| c == name.as_slice()));
        if !named {
            shape.push(format!("{}: name is not a component of any requested path", p));
        }
    }
    if ops.len() == 1 {
        // a single chain: at most one created directory whose parent existed before, each has at most one created child
        let tops: Vec<&B> = added_set.iter().filter(|p| !added_set.contains(&crate::gen::split_parent(p).0)).collect();
        if tops.len() > 1 {
            shape.push(format!("more than one chain of directories was created: {:?}", tops));
        }
        for p in &added_set {
            let kids = added_set.iter().filter(|q| &crate::gen::split_parent(q).0 == p).count();
            if kids > 1 {
                shape.push(format!("{} got {} new children", p, kids));
            }
        }
        // on success the deepest created directory is the returned one
        if let (Out::Fd(_), Some(l)) = (&outs[0], &callers[0].label) {
            if !added_set.is_empty() {
                let deepest = added_set.iter().max_by_key(|p| p.0.len()).unwrap();
                if deepest != l {
                    shape.push(format!("returned handle is {} but the deepest created directory is {}", l, deepest));
                }
            }
        }
    }
    close(rootfd);
    sb.destroy();
    Report { callers, added, removed, modified, outside_changed, shape, existing_prefix_via_link_or_dotdot, preemptions: sched.preemptions, blocked_steps: sched.blocked_steps, sched_problem: sched.problem }
}

fn backend(k: Kcfg) -> &'static str {
    if k.has_openat2() {
        "kernel"
    } else {
        "emulated"
    }
}

pub fn judge(case: &Case, rep: &Report, stats: &mut Stats) -> Result<(), Fail> {
    if let Some(p) = &rep.sched_problem {
        return Err(Fail::Harness(format!("scheduler: {}", p)));
    }
    stats.eval();
    let conc = case.paths.len() > 1;
    stats.class(&format!("backend:{}", backend(case.kcfg)));
    stats.class(&format!("outcome:{}", rep.callers[0].out.class()));
    stats.class(&format!("created:{}", rep.added.len().min(6)));
    if conc {
        stats.class(&format!("concurrent-callers:{}", case.paths.len()));
        stats.count("preemptions", rep.preemptions as u64);
        stats.count("blocked_schedule_steps", rep.blocked_steps as u64);
    }
    let invalid_mode = case.mode & !0o1777 != 0;
    if invalid_mode {
        stats.class("invalid-mode");
    }
    let nontrivial = !rep.added.is_empty() && (rep.existing_prefix_via_link_or_dotdot || (conc && rep.preemptions > 0));
    if nontrivial {
        stats.nontrivial_key(&format!("{}|{:?}|{:?}|{}|{}|{:?}|{:o}", case.tree.hash(), case.paths, case.kcfg, case.no_symlinks, case.umask, case.schedule, case.mode));
        stats.sample(|| json!({"paths": case.paths.iter().map(|p| p.to_string()).collect::<Vec<_>>(), "mode": format!("{:o}", case.mode), "umask": format!("{:o}", case.umask), "backend": backend(case.kcfg), "outcomes": rep.callers.iter().map(|c| c.out.brief()).collect::<Vec<_>>(), "created": rep.added.iter().map(|a| format!("{} {:o}", a.0, a.2)).collect::<Vec<_>>(), "preemptions": rep.preemptions}));
    }
    let mk = |sig: String, msg: String| -> Fail {
        Fail::Violation(Violation {
            check: if conc { "mkdir-all-concurrent".into() } else { "mkdir-all".into() },
            signature: sig,
            message: format!(
                "mkdir_all({:?}, 0o{:o} {:?}){} umask {:o} via {} backend{}, schedule {:?}\n  outcomes: {:?}\n  handles: {:?}\n  in-root resolution afterwards: {:?}\n  created: {:?}\n  {}",
                case.paths.iter().map(|p| p.to_string()).collect::<Vec<_>>(),
                case.mode,
                case.modes.iter().map(|w| format!("{:o}", w)).collect::<Vec<_>>(),
                if case.capi { " [C]" } else { "" },
                case.umask,
                backend(case.kcfg),
                if case.no_symlinks { " NO_SYMLINKS" } else { "" },
                case.schedule,
                rep.callers.iter().map(|c| c.out.brief()).collect::<Vec<_>>(),
                rep.callers.iter().map(|c| c.label.as_ref().map(|l| l.to_string())).collect::<Vec<_>>(),
                rep.callers.iter().map(|c| c.resolution.clone()).collect::<Vec<_>>(),
                rep.added,
                msg
            ),
            case: serde_json::to_value(case).unwrap(),
        })
    };
    for c in &rep.callers {
        if let Out::Panicked(m) = &c.out {
            return Err(mk("panic".into(), format!("library panicked: {}", m)));
        }
    }
    if !rep.outside_changed.is_empty() {
        return Err(mk("outside-changed".into(), format!("changes outside the root: {:?}", rep.outside_changed)));
    }
    if !rep.removed.is_empty() || !rep.modified.is_empty() {
        return Err(mk("removed-or-modified".into(), format!("mkdir_all removed {:?} / modified {:?}", rep.removed, rep.modified)));
    }
    if invalid_mode {
        if rep.callers.iter().any(|c| c.out.is_ok()) || !rep.added.is_empty() {
            return Err(mk("invalid-mode-accepted".into(), "a mode with type/setuid/setgid bits was accepted or something was created".into()));
        }
        if let Some(c) = rep.callers.iter().find(|c| !matches!(&c.out, Out::Err { kind, .. } if kind == "inval")) {
            return Err(mk("invalid-mode-wrong-error".into(), format!("expected InvalidArgument, got {}", c.out.brief())));
        }
        return Ok(());
    }
    if !rep.shape.is_empty() {
        let first = rep.shape[0].split(':').last().unwrap_or("").trim().split(' ').next().unwrap_or("").to_string();
        let _ = first;
        return Err(mk(format!("shape:{}", if rep.shape[0].contains("mode") { "mode" } else if rep.shape[0].contains("chain") || rep.shape[0].contains("children") { "not-a-chain" } else if rep.shape[0].contains("non-directory") { "non-directory" } else if rep.shape[0].contains("deepest") { "handle-not-deepest" } else { "other" }), rep.shape.join("\n  ")));
    }
    for (i, c) in rep.callers.iter().enumerate() {
        if c.out.is_ok() && c.matches_resolution == Some(false) && !case.kcfg.has_openat2() && c.resolution == "Err(ELOOP)" && !case.no_symlinks {
            // more than 40 link traversals: kernel budget 40, emulated budget 128 (outside the compared domain)
            stats.count("discarded_over_40_traversals", 1);
            continue;
        }
        if c.out.is_ok() && c.matches_resolution == Some(false) {
            return Err(mk("handle-differs-from-resolution".into(), format!("caller {}: the returned handle ({:?}) is not the directory the path resolves to afterwards ({})", i, c.label, c.resolution)));
        }
    }
    if conc {
        // all concurrent callers succeed (when a lone call would)
        let any_ok = rep.callers.iter().any(|c| c.out.is_ok());
        if any_ok {
            if let Some((i, bad)) = rep.callers.iter().enumerate().find(|(_, c)| !c.out.is_ok()) {
                // (a safety violation made of 16 EAGAINs is filtered by the immediate re-runs of the whole case)
                let env = matches!(&bad.out, Out::Err { errno: Some(e), .. } if *e == libc::EAGAIN);
                // a caller whose own path is not creatable (e.g. below a file) may fail legitimately:
                // judge by what the path resolves to afterwards
                // '..' in the not-yet-existing part is refused by design; whether it is
                // "not yet existing" depends on the race, so such callers may fail
                let has_dotdot = case.paths[i].0.split(|&c| c == b'/').any(|c| c == b"..");
                let resolvable = bad.resolution.starts_with("Ok(dir") && !has_dotdot;
                if !env && resolvable {
                    return Err(mk(format!("concurrent-failure:{}", bad.out.class()), format!("caller {} failed although its path now resolves to a directory", i)));
                }
            }
        }
    }
    Ok(())
}

pub fn check(case: &Case, stats: &mut Stats) -> Result<(), Fail> {
    stable(&check_once, case, stats, 3)
}

pub fn check_once(case: &Case, stats: &mut Stats) -> Result<(), Fail> {
    match run_in_child(120.0, || child(case)) {
        ChildOut::Ok(rep) => judge(case, &rep, stats),
        ChildOut::Crashed { sig } => Err(Fail::Harness(format!("child died with signal {}", sig))),
        ChildOut::Exit { code, stderr_hint } => Err(Fail::Harness(format!("child exit {}: {}", code, stderr_hint))),
        ChildOut::Timeout => Err(Fail::Harness("child timed out".into())),
    }
}

fn run_lane(ctx: &Ctx, lr: &mut LaneResult) {
    search(ctx, lr, "mkdir-all", ctx.tier.pick(8000, 80000), strategy(false), &check);
    if lr.violations.is_empty() {
        search_opts(ctx, lr, "mkdir-all-concurrent", ctx.tier.pick(1280, 12800), strategy(true), &check, 40);
    }
}

fn replay(_ctx: &Ctx, _check: &str, case: &Value) -> Result<(), Fail> {
    let case: Case = serde_json::from_value(case.clone()).map_err(|e| Fail::Harness(format!("bad case: {}", e)))?;
    let mut s = Stats::default();
    check(&case, &mut s)
}

pub const PROP: Prop = Prop {
    id: "C12",
    level: "exploration",
    rule: "generated tree x mkdir_all path (below existing directories and links, '..' in the existing and in the missing part, dangling links and non-directories in the way, trailing slashes, '//', NUL) x mode (valid 0-01777 and invalid type/setuid/setgid bits) x umask x backend x {Rust, C API}; sequential, or 2-3 concurrent callers on equal / prefix-related / sibling paths interleaved at syscall granularity by a generated schedule (<=4 pre-emptions). Oracle over before/after snapshots: nothing outside the root changes; nothing is removed or modified; only directories are created, forming a single chain below a pre-existing directory, each named after a component of the requested path, with mode = requested & ~umask (+ setgid and group inherited from a setgid parent); on success the returned handle is a directory and is exactly what an independent in-root resolution (harness's own openat2) of the path yields afterwards, and it is the deepest created directory; invalid modes => InvalidArgument and nothing created; concurrent callers whose path ends up resolvable all succeed. non-trivial = something was created and (the existing prefix is reached through a link or '..', or >=1 pre-emption happened); distinct by (tree, paths, kcfg, umask, mode, schedule)",
    assumptions: &["interleavings are at the granularity of the callers' own system calls (descriptor-local calls are not scheduling points)"],
    lanes: |_| 16,
    run_lane,
    replay,
    extra: None,
    exhaustive: false,
};
