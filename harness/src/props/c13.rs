//! C13 — remove_all removes exactly the named subtree and never follows links.

use crate::driver::*;
use crate::exec::*;
use crate::gate::*;
use crate::gen::*;
use crate::ops::*;
use crate::props::c14::split_last;
use crate::sandbox::*;
use crate::sched::*;
use crate::util::*;
use proptest::collection::vec;
use proptest::prelude::*;
use serde::{Deserialize, Serialize};
use serde_json::{json, Value};

#[derive(Clone, Debug, Serialize, Deserialize)]
pub struct Case {
    pub tree: TreeSpec,
    pub kcfg: Kcfg,
    pub no_symlinks: bool,
    pub path: B,
    pub capi: bool,
    /// number of concurrent callers (1 = sequential) and the schedule
    pub workers: u8,
    pub schedule: Vec<u8>,
}

/// Append a wide/deep directory with links of all kinds to the tree.
pub fn add_bulk(tree: &mut TreeSpec, at: u16, width: u8, depth: u8, name: u8) -> B {
    let dirs = tree.dirs();
    let parent = dirs[pick(at, dirs.len())].clone();
    let top = parent.join(format!("w{}", name % 4).as_bytes());
    if tree.node(&top).is_some() {
        return top;
    }
    tree.entries.push((top.clone(), Node::Dir { mode: 0o755 }));
    let n = 3 + (width as usize % 60);
    for i in 0..n {
        let p = top.join(format!("n{:02}", i).as_bytes());
        let node = match i % 9 {
            0 => Node::Dir { mode: 0o755 },
            1 => Node::Symlink { body: B::new("..") },
            2 => Node::Symlink { body: B::new("@OUT@/dir") },
            3 => Node::Symlink { body: B::new("../..") },
            4 => Node::Fifo,
            5 => Node::Symlink { body: B::new("@OUT@/secret.f") },
            6 => Node::Dir { mode: 0o700 },
            7 => Node::Symlink { body: B::new("/") },
            _ => Node::File { mode: 0o644, content: B::new(format!("bulk-{}", i)) },
        };
        let isdir = matches!(node, Node::Dir { .. });
        tree.entries.push((p.clone(), node));
        if isdir {
            // a few levels below
            let mut cur = p;
            for d in 0..(depth % 5) {
                let f = cur.join(b"f");
                tree.entries.push((f, Node::File { mode: 0o600, content: B::new("deep") }));
                let l = cur.join(b"up");
                tree.entries.push((l, Node::Symlink { body: B::new("../../..") }));
                cur = cur.join(format!("d{}", d).as_bytes());
                tree.entries.push((cur.clone(), Node::Dir { mode: 0o755 }));
            }
        }
    }
    top
}

pub fn strategy(concurrent: bool) -> impl Strategy<Value = Case> {
    (
        tree_recipe(10),
        prop_oneof![3 => Just(Kcfg::NoMountApi), 3 => Just(Kcfg::NoOpenat2NoMountApi), 1 => Just(Kcfg::NoOpenat2), 1 => Just(Kcfg::Full)],
        prop_oneof![8 => Just(false), 1 => Just(true)],
        (any::<u16>(), any::<u8>(), any::<u8>(), any::<u8>(), prop_oneof![1 => Just(false), 2 => Just(true)]),
        (path_recipe(), 0u8..10, 0u8..12),
        prop_oneof![4 => Just(false), 1 => Just(true)],
        (2u8..4, vec(any::<u8>(), 0..40)),
    )
        .prop_map(move |(tr, kcfg, no_symlinks, (at, width, depth, name, bulk), (p, mode, deco), capi, (workers, schedule))| {
            let mut tree = build_tree(&tr);
            let mut path = build_path(&tree, &p);
            if bulk {
                let top = add_bulk(&mut tree, at, width, depth, name);
                if mode < 6 {
                    path = top;
                }
            }
            // spellings of the final component
            let mut v = path.0.clone();
            match deco {
                0 => v.extend_from_slice(b"/."),
                1 => v.extend_from_slice(b"/.."),
                2 => v.extend_from_slice(b"/"),
                3 => v = [b"./".to_vec(), v].concat(),
                4 => v = [b"/".to_vec(), v].concat(),
                _ => {}
            }
            let path = B(v);
            let capi = capi && !no_symlinks && !path.has_nul();
            if concurrent {
                Case { tree, kcfg, no_symlinks, path, capi: false, workers, schedule }
            } else {
                Case { tree, kcfg, no_symlinks, path, capi, workers: 1, schedule: vec![] }
            }
        })
}

#[derive(Clone, Debug, Serialize, Deserialize)]
pub struct Report {
    pub outs: Vec<Out>,
    /// label (sandbox-relative) of the entry the path names, per the kernel, before the call
    pub entry: Option<B>,
    pub entry_kind: String,
    pub final_is_dots: bool,
    pub removed: Vec<B>,
    pub added: Vec<B>,
    pub modified: Vec<B>,
    pub still_there: bool,
    pub subtree_size: usize,
    pub subtree_links: usize,
    pub preemptions: usize,
    pub blocked_steps: usize,
    pub sched_problem: Option<String>,
    /// does "everything before the last slash" still resolve after the call?
    pub parent_resolves_after: bool,
    /// errno of the kernel's resolution of the parent part, if it failed
    #[serde(default)]
    pub parent_kernel_errno: Option<i32>,
}

pub fn child(case: &Case) -> Report {
    let sb = Sandbox::create("c13");
    sb.materialise(&case.tree, &sb.root());
    let before = Snapshot::take_path(&sb.base);
    let rootfd = openat_raw(libc::AT_FDCWD, sb.root().as_os_str().as_encoded_bytes(), libc::O_PATH | libc::O_DIRECTORY, 0).expect("open root");
    // which entry does the path name? (kernel's in-root resolution of the parent)
    let (rest, name) = split_last(&case.path);
    let mut entry = None;
    let mut entry_kind = "none".to_string();
    let mut final_is_dots = false;
    let mut parent_kernel_errno = None;
    if let Some(n) = &name {
        final_is_dots = n.0 == b"." || n.0 == b"..";
        if !final_is_dots && !case.path.has_nul() {
            let mut resolve = RESOLVE_IN_ROOT | RESOLVE_NO_MAGICLINKS;
            if case.no_symlinks {
                resolve |= RESOLVE_NO_SYMLINKS;
            }
            let pres = openat2_raw(rootfd, &rest.0, libc::O_PATH as u64, 0, resolve);
            if let Err(e) = &pres {
                parent_kernel_errno = Some(*e);
            }
            if let Ok(pfd) = pres {
                if let (Ok(pst), Ok(est)) = (fstat(pfd), fstatat(pfd, &n.0, true)) {
                    if let Some(pl) = before.label_of(pst.id) {
                        let l = pl.join(&n.0);
                        if before.map.get(&l).map(|e| e.id()) == Some(est.id) {
                            entry_kind = est.tname().to_string();
                            entry = Some(l);
                        }
                    }
                }
                close(pfd);
            }
        }
    }
    let rootpath = sb.root();
    let op = Op::RemoveAll { path: case.path.clone() };
    let (outs, sched) = if case.workers <= 1 {
        let out = with_session(case.kcfg, None, |s| {
            let ro = s.run(|_wg, st| match open_root(&rootpath, case.no_symlinks) {
                Ok(r) => {
                    st.root = Some(r);
                    None
                }
                Err(o) => Some(o),
            });
            if let Some(o) = ro {
                panic!("Root::open failed: {}", o.brief());
            }
            let mut tries = 0;
            loop {
                let out = s.run(|_wg, st| exec_op(st.root.as_ref().unwrap(), &op, case.capi).0);
                tries += 1;
                let transient = match &out {
                    Out::Err { errno: Some(e), .. } if *e == libc::EAGAIN => true,
                    Out::Err { kind, .. } if kind == "safety" && case.kcfg.has_openat2() => true,
                    _ => false,
                };
                if !transient || tries > 60 {
                    s.run(|_wg, st| st.root = None);
                    break out;
                }
            }
        });
        (vec![out], SchedStats::default())
    } else {
        let ops: Vec<Op> = (0..case.workers).map(|_| op.clone()).collect();
        run_scheduled(case.kcfg, &rootpath, case.no_symlinks, &ops, &case.schedule)
    };
    let after = Snapshot::take_path(&sb.base);
    let mut removed = vec![];
    let mut added = vec![];
    let mut modified = vec![];
    for c in changes(&before, &after) {
        match c {
            Change::Removed(p) => removed.push(p),
            Change::Added(p) => added.push(p),
            Change::Modified(p) => modified.push(p),
        }
    }
    let still_there = match &entry {
        Some(e) => after.map.contains_key(e),
        None => false,
    };
    let (subtree_size, subtree_links) = match &entry {
        Some(e) => {
            let sub = before.sub(e);
            (sub.map.len(), sub.map.values().filter(|x| x.ftype == libc::S_IFLNK).count())
        }
        None => (0, 0),
    };
    let parent_resolves_after = {
        let mut resolve = RESOLVE_IN_ROOT | RESOLVE_NO_MAGICLINKS;
        if case.no_symlinks {
            resolve |= RESOLVE_NO_SYMLINKS;
        }
        match openat2_raw(rootfd, &rest.0, libc::O_PATH as u64, 0, resolve) {
            Ok(fd) => {
                close(fd);
                true
            }
            Err(_) => false,
        }
    };
    close(rootfd);
    sb.destroy();
    Report { parent_resolves_after, parent_kernel_errno, outs, entry, entry_kind, final_is_dots, removed, added, modified, still_there, subtree_size, subtree_links, preemptions: sched.preemptions, blocked_steps: sched.blocked_steps, sched_problem: sched.problem }
}

fn backend(k: Kcfg) -> &'static str {
    if k.has_openat2() {
        "kernel"
    } else {
        "emulated"
    }
}

pub fn judge(case: &Case, rep: &Report, stats: &mut Stats) -> Result<(), Fail> {
    if let Some(p) = &rep.sched_problem {
        return Err(Fail::Harness(format!("scheduler: {}", p)));
    }
    stats.eval();
    stats.class(&format!("backend:{}", backend(case.kcfg)));
    stats.class(&format!("entry:{}", rep.entry_kind));
    stats.class(&format!("outcome:{}", rep.outs[0].class()));
    if case.workers > 1 {
        stats.class(&format!("concurrent-callers:{}", case.workers));
        stats.count("preemptions", rep.preemptions as u64);
        stats.count("blocked_schedule_steps", rep.blocked_steps as u64);
    }
    if rep.final_is_dots {
        stats.class("final-component-dot-or-dotdot");
    }
    let canonical = rep.entry.as_ref().map(|e| e.0 == [b"root/".to_vec(), case.path.0.clone()].concat()).unwrap_or(false);
    let nontrivial = (rep.entry_kind == "dir" && rep.subtree_links > 0) || (rep.entry.is_some() && !canonical) || rep.final_is_dots || (case.workers > 1 && rep.preemptions > 0);
    if nontrivial {
        stats.nontrivial_key(&format!("{}|{}|{:?}|{}|{}|{:?}", case.tree.hash(), case.path, case.kcfg, case.no_symlinks, case.workers, case.schedule));
        stats.sample(|| json!({"path": case.path.to_string(), "backend": backend(case.kcfg), "callers": case.workers, "names_entry": rep.entry.as_ref().map(|e| e.to_string()), "entry_kind": rep.entry_kind, "subtree_entries": rep.subtree_size, "links_in_subtree": rep.subtree_links, "outcomes": rep.outs.iter().map(|o| o.brief()).collect::<Vec<_>>(), "removed": rep.removed.len(), "preemptions": rep.preemptions}));
    }
    let mk = |sig: String, msg: String| -> Fail {
        Fail::Violation(Violation {
            check: if case.workers > 1 { "remove-all-concurrent".into() } else { "remove-all".into() },
            signature: sig,
            message: format!(
                "remove_all(\"{}\"){} via {} backend{}, {} caller(s), schedule {:?}\n  names entry: {:?} ({})\n  outcomes: {:?}\n  removed {} entries, added {:?}, modified {:?}\n  {}",
                case.path,
                if case.capi { " [C]" } else { "" },
                backend(case.kcfg),
                if case.no_symlinks { " NO_SYMLINKS" } else { "" },
                case.workers,
                case.schedule,
                rep.entry,
                rep.entry_kind,
                rep.outs.iter().map(|o| o.brief()).collect::<Vec<_>>(),
                rep.removed.len(),
                rep.added,
                rep.modified,
                msg
            ),
            case: serde_json::to_value(case).unwrap(),
        })
    };
    for o in &rep.outs {
        if let Out::Panicked(m) = o {
            return Err(mk("panic".into(), format!("library panicked: {}", m)));
        }
    }
    if !rep.added.is_empty() || !rep.modified.is_empty() {
        return Err(mk("added-or-modified".into(), "remove_all added or modified entries".into()));
    }
    // more than 40 link traversals: the kernel (budget 40) says ELOOP, the emulated
    // resolver (budget 128) keeps going; which entry such a path names is outside the
    // domain the resolvers are compared on. Only the frame condition is kept:
    // nothing outside the root disappears.
    if rep.entry.is_none() && rep.parent_kernel_errno == Some(libc::ELOOP) && !case.kcfg.has_openat2() && !case.no_symlinks && !rep.removed.is_empty() {
        let root = B::new("root");
        if let Some(p) = rep.removed.iter().find(|p| !under(p, &root)) {
            return Err(mk("removed-outside-root".into(), format!("an entry outside the root disappeared: {}", p)));
        }
        stats.count("discarded_over_40_traversals", 1);
        return Ok(());
    }
    // everything removed must belong to the named subtree
    let spelling = if rep.final_is_dots { "dots" } else if rep.entry.is_none() { "no-entry" } else { "entry" };
    let outside: Vec<&B> = rep.removed.iter().filter(|p| match &rep.entry { Some(e) => !under(p, e), None => true }).collect();
    if !outside.is_empty() {
        return Err(mk(format!("removed-outside-subtree:{}", spelling), format!("entries outside the named subtree disappeared: {:?}", outside.iter().take(10).collect::<Vec<_>>())));
    }
    let any_ok = rep.outs.iter().any(|o| o.is_ok());
    if rep.final_is_dots && any_ok {
        return Err(mk("dots-accepted".into(), "a path whose final component is '.' or '..' was accepted".into()));
    }
    if any_ok && rep.entry.is_some() {
        if rep.still_there {
            return Err(mk("success-but-still-there".into(), "success was reported but the entry still exists".into()));
        }
        if rep.removed.len() != rep.subtree_size {
            return Err(mk("success-but-partial".into(), format!("success was reported but only {} of {} entries of the subtree are gone", rep.removed.len(), rep.subtree_size)));
        }
    }
    if any_ok && rep.entry.is_none() && !rep.removed.is_empty() {
        return Err(mk("removed-without-entry".into(), "something was removed although the path names nothing".into()));
    }
    if case.workers > 1 && rep.entry.is_some() && !rep.final_is_dots {
        // concurrent callers for one existing path all report success
        if let Some(bad) = rep.outs.iter().find(|o| !o.is_ok()) {
            // persistent EAGAIN is environmental
            if !matches!(bad, Out::Err { errno: Some(e), .. } if *e == libc::EAGAIN) {
                let through = if !rep.parent_resolves_after { ":path-runs-through-the-entry-it-names" } else { "" };
                return Err(mk(format!("concurrent-failure:{}{}", bad.class(), through), "a concurrent remove_all of the same path failed".into()));
            }
        }
    }
    Ok(())
}

pub fn check(case: &Case, stats: &mut Stats) -> Result<(), Fail> {
    stable(&check_once, case, stats, 3)
}

pub fn check_once(case: &Case, stats: &mut Stats) -> Result<(), Fail> {
    match run_in_child(120.0, || child(case)) {
        ChildOut::Ok(rep) => judge(case, &rep, stats),
        ChildOut::Crashed { sig } => Err(Fail::Harness(format!("child died with signal {}", sig))),
        ChildOut::Exit { code, stderr_hint } => Err(Fail::Harness(format!("child exit {}: {}", code, stderr_hint))),
        ChildOut::Timeout => Err(Fail::Harness("child timed out".into())),
    }
}

fn run_lane(ctx: &Ctx, lr: &mut LaneResult) {
    search(ctx, lr, "remove-all", ctx.tier.pick(6000, 60000), strategy(false), &check);
    if lr.violations.is_empty() {
        search_opts(ctx, lr, "remove-all-concurrent", ctx.tier.pick(640, 6400), strategy(true), &check, 40);
    }
}

fn replay(_ctx: &Ctx, _check: &str, case: &Value) -> Result<(), Fail> {
    let case: Case = serde_json::from_value(case.clone()).map_err(|e| Fail::Harness(format!("bad case: {}", e)))?;
    let mut s = Stats::default();
    check(&case, &mut s)
}

pub const PROP: Prop = Prop {
    id: "C13",
    level: "exploration",
    rule: "generated tree, usually extended by a bulk directory (3-62 entries: sub-directories up to 5 levels, files, FIFOs, links to '..', '../..', '/', and to a directory and a file outside the root) x path spelling (plain, through links, './x', '/x', 'x/.', 'x/..', 'x/', NUL, missing) x backend x {Rust, C API}; sequential, or 2-3 concurrent remove_all calls for the same path whose interleaving at syscall granularity is dictated by a generated schedule (the gate parks every caller at each syscall and releases one per step). The entry a path names is determined beforehand by the harness's own openat2 resolution of the parent. Oracle over whole-sandbox snapshots (root, its parent, siblings, outside tree): nothing is added or modified; everything that disappeared lies in the named subtree; success => the entry and the whole subtree are gone (link targets inside and outside untouched by construction of the diff); a final '.' or '..' is refused with nothing removed; concurrent callers all succeed. non-trivial = directory containing links, or non-canonical spelling, or '.'/'..', or >=1 pre-emption; distinct by (tree, path, kcfg, callers, schedule)",
    assumptions: &["interleavings are at the granularity of the callers' own system calls; schedule steps at which the chosen caller is blocked on a userspace lock are counted, not trusted"],
    lanes: |_| 16,
    run_lane,
    replay,
    extra: None,
    exhaustive: false,
};
