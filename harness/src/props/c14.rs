//! C14 — single-entry operations act on exactly (in-root parent, final name).

use crate::driver::*;
use crate::exec::*;
use crate::gate::*;
use crate::gen::*;
use crate::ops::*;
use crate::sandbox::*;
use crate::util::*;
use proptest::prelude::*;
use serde::{Deserialize, Serialize};
use serde_json::{json, Value};
use std::collections::BTreeMap;
use std::ffi::CString;

#[derive(Clone, Debug, Serialize, Deserialize)]
pub struct Case {
    pub tree: TreeSpec,
    pub kcfg: Kcfg,
    pub no_symlinks: bool,
    pub umask: u32,
    pub op: Op,
    pub capi: bool,
}

pub fn strategy() -> impl Strategy<Value = Case> {
    (
        tree_recipe(12),
        prop_oneof![3 => Just(Kcfg::NoMountApi), 3 => Just(Kcfg::NoOpenat2NoMountApi), 1 => Just(Kcfg::NoOpenat2), 1 => Just(Kcfg::Full)],
        prop_oneof![6 => Just(false), 1 => Just(true)],
        prop_oneof![3 => Just(0o022u32), 1 => Just(0o077u32), 1 => Just(0u32)],
        mutating_op_recipe().prop_filter("single-entry", |o| !matches!(o, OpRecipe::MkdirAll(..) | OpRecipe::RemoveAll(..))),
        prop_oneof![3 => Just(false), 1 => Just(true)],
    )
        .prop_map(|(tr, kcfg, no_symlinks, umask, o, capi)| {
            let tree = build_tree(&tr);
            let mut op = build_op(&tree, &o);
            if let Op::CreateFile { flags, .. } = &mut op {
                // O_CREAT|O_PATH does not create: that combination is C03's
                *flags &= !libc::O_PATH;
            }
            Case { tree, kcfg, no_symlinks, umask, capi: capi && !no_symlinks && !op.has_nul(), op }
        })
}

/// The property's reading of a path: (rest, final name). `None`: trailing slash.
pub fn split_last(p: &B) -> (B, Option<B>) {
    match p.0.iter().rposition(|&c| c == b'/') {
        None => {
            if p.0.is_empty() {
                (B::new("."), None)
            } else {
                (B::new("."), Some(p.clone()))
            }
        }
        Some(i) => {
            let rest = if i == 0 { B::new("/") } else { B(p.0[..i].to_vec()) };
            let name = &p.0[i + 1..];
            if name.is_empty() {
                (rest, None)
            } else {
                (rest, Some(B(name.to_vec())))
            }
        }
    }
}

#[derive(Clone, Debug, PartialEq, Eq, Serialize, Deserialize)]
pub enum TwinOut {
    Ok,
    Err(i32),
    /// the documented exception: trailing slash => invalid argument
    Inval,
}

fn cs(b: &B) -> CString {
    b.cstr()
}

fn k_parent(twinfd: i32, rest: &B, no_symlinks: bool) -> Result<i32, i32> {
    if rest.has_nul() {
        return Err(libc::EINVAL);
    }
    let mut resolve = RESOLVE_IN_ROOT | RESOLVE_NO_MAGICLINKS;
    if no_symlinks {
        resolve |= RESOLVE_NO_SYMLINKS;
    }
    openat2_raw(twinfd, &rest.0, libc::O_PATH as u64, 0, resolve)
}

fn rc(r: libc::c_int) -> TwinOut {
    if r >= 0 {
        TwinOut::Ok
    } else {
        TwinOut::Err(errno())
    }
}

/// Apply the corresponding raw *at call on the twin tree. Returns the outcome
/// and, for create_file, the descriptor.
pub fn twin_apply(twinfd: i32, op: &Op, no_symlinks: bool) -> (TwinOut, Option<i32>) {
    let one = |path: &B, f: &dyn Fn(i32, &B) -> (TwinOut, Option<i32>)| -> (TwinOut, Option<i32>) {
        let (rest, name) = split_last(path);
        let parent = match k_parent(twinfd, &rest, no_symlinks) {
            Ok(fd) => fd,
            Err(e) => return (TwinOut::Err(e), None),
        };
        let r = match name {
            None => (TwinOut::Inval, None),
            Some(n) => {
                if n.has_nul() {
                    (TwinOut::Err(libc::EINVAL), None)
                } else {
                    f(parent, &n)
                }
            }
        };
        close(parent);
        r
    };
    unsafe {
        match op {
            Op::Mkdir { path, mode } => one(path, &|p, n| (rc(libc::mkdirat(p, cs(n).as_ptr(), *mode & !libc::S_IFMT)), None)),
            Op::Mkfile { path, mode } => one(path, &|p, n| (rc(libc::mknodat(p, cs(n).as_ptr(), libc::S_IFREG | (*mode & !libc::S_IFMT), 0)), None)),
            Op::Mkfifo { path, mode } => one(path, &|p, n| (rc(libc::mknodat(p, cs(n).as_ptr(), libc::S_IFIFO | (*mode & !libc::S_IFMT), 0)), None)),
            Op::Mkchr { path, mode } => one(path, &|p, n| (rc(libc::mknodat(p, cs(n).as_ptr(), libc::S_IFCHR | (*mode & !libc::S_IFMT), libc::makedev(1, 3))), None)),
            Op::Symlink { path, target } => one(path, &|p, n| {
                if target.has_nul() {
                    return (TwinOut::Err(libc::EINVAL), None);
                }
                (rc(libc::symlinkat(cs(target).as_ptr(), p, cs(n).as_ptr())), None)
            }),
            Op::RemoveFile { path } => one(path, &|p, n| (rc(libc::unlinkat(p, cs(n).as_ptr(), 0)), None)),
            Op::RemoveDir { path } => one(path, &|p, n| (rc(libc::unlinkat(p, cs(n).as_ptr(), libc::AT_REMOVEDIR)), None)),
            Op::CreateFile { path, flags, mode } => one(path, &|p, n| {
                let fd = libc::openat(p, cs(n).as_ptr(), *flags | libc::O_CREAT | libc::O_NOFOLLOW | libc::O_CLOEXEC | libc::O_NOCTTY, *mode);
                if fd >= 0 {
                    (TwinOut::Ok, Some(fd))
                } else {
                    (TwinOut::Err(errno()), None)
                }
            }),
            Op::Hardlink { path, target } => one(path, &|p, n| {
                let (trest, tname) = split_last(target);
                let tparent = match k_parent(twinfd, &trest, no_symlinks) {
                    Ok(fd) => fd,
                    Err(e) => return (TwinOut::Err(e), None),
                };
                let r = match tname {
                    None => TwinOut::Inval,
                    Some(tn) => {
                        if tn.has_nul() {
                            TwinOut::Err(libc::EINVAL)
                        } else {
                            rc(libc::linkat(tparent, cs(&tn).as_ptr(), p, cs(n).as_ptr(), 0))
                        }
                    }
                };
                close(tparent);
                (r, None)
            }),
            Op::Rename { src, dst, flags } => {
                // both parents are resolved and both names checked before the call
                let (srest, sname) = split_last(src);
                let sparent = match k_parent(twinfd, &srest, no_symlinks) {
                    Ok(fd) => fd,
                    Err(e) => return (TwinOut::Err(e), None),
                };
                let sname = match sname {
                    None => {
                        close(sparent);
                        return (TwinOut::Inval, None);
                    }
                    Some(n) => n,
                };
                let (drest, dname) = split_last(dst);
                let dparent = match k_parent(twinfd, &drest, no_symlinks) {
                    Ok(fd) => fd,
                    Err(e) => {
                        close(sparent);
                        return (TwinOut::Err(e), None);
                    }
                };
                let r = match dname {
                    None => TwinOut::Inval,
                    Some(dn) => {
                        if sname.has_nul() || dn.has_nul() {
                            TwinOut::Err(libc::EINVAL)
                        } else {
                            rc(libc::renameat2(sparent, cs(&sname).as_ptr(), dparent, cs(&dn).as_ptr(), *flags))
                        }
                    }
                };
                close(sparent);
                close(dparent);
                (r, None)
            }
            _ => panic!("not a single-entry op"),
        }
    }
}

#[derive(Clone, Debug, Serialize, Deserialize)]
pub struct Report {
    pub lib: Out,
    pub twin: TwinOut,
    pub lib_tree: BTreeMap<B, String>,
    pub twin_tree: BTreeMap<B, String>,
    /// create_file: does the returned descriptor name the file now at that path?
    pub fd_matches_path: Option<bool>,
    pub fd_info: Option<String>,
    pub getfl: Option<(i32, i32)>,
    pub parent_via_link_or_dotdot: bool,
    pub final_exists: bool,
}

pub fn child(case: &Case) -> Report {
    unsafe { libc::umask(case.umask) };
    let sb = Sandbox::create("c14");
    sb.materialise(&case.tree, &sb.root());
    sb.materialise(&case.tree, &sb.twin());
    let rootfd = openat_raw(libc::AT_FDCWD, sb.root().as_os_str().as_encoded_bytes(), libc::O_PATH | libc::O_DIRECTORY, 0).expect("open root");
    let twinfd = openat_raw(libc::AT_FDCWD, sb.twin().as_os_str().as_encoded_bytes(), libc::O_PATH | libc::O_DIRECTORY, 0).expect("open twin");
    // classification before anything changes
    let (rest, name) = split_last(case.op.path());
    let parent_plain = k_lookup(rootfd, &Op::Resolve { path: rest.clone() }, true);
    let parent_any = k_lookup(rootfd, &Op::Resolve { path: rest.clone() }, false);
    let parent_via_link_or_dotdot = (parent_plain.class() != parent_any.class()) || rest.0.split(|&c| c == b'/').any(|c| c == b"..");
    let final_exists = match &name {
        Some(_) => !matches!(k_lookup(rootfd, &Op::ResolveNofollow { path: case.op.path().clone() }, false), KOut::Err(_)),
        None => false,
    };
    let rootpath = sb.root();
    let (lib, lib_fd_id, lib_getfl) = with_session(case.kcfg, None, |s| {
        let ro = s.run(|_wg, st| match open_root(&rootpath, case.no_symlinks) {
            Ok(r) => {
                st.root = Some(r);
                None
            }
            Err(o) => Some(o),
        });
        if let Some(o) = ro {
            panic!("Root::open failed: {}", o.brief());
        }
        let mut tries = 0;
        loop {
            let (out, id, getfl) = s.run(|_wg, st| {
                let (out, fd) = exec_op(st.root.as_ref().unwrap(), &case.op, case.capi);
                let (id, getfl) = match &out {
                    Out::Fd(o) => (Some(o.id()), Some(o.getfl)),
                    _ => (None, None),
                };
                drop(fd);
                (out, id, getfl)
            });
            tries += 1;
            let transient = match &out {
                Out::Err { errno: Some(e), .. } if *e == libc::EAGAIN => true,
                Out::Err { kind, .. } if kind == "safety" && case.kcfg.has_openat2() => true,
                _ => false,
            };
            if !transient || tries > 60 {
                s.run(|_wg, st| st.root = None);
                break (out, id, getfl);
            }
        }
    });
    let (twin, twin_fd) = twin_apply(twinfd, &case.op, case.no_symlinks);
    let mut fd_matches_path = None;
    let mut fd_info = None;
    let mut getfl = None;
    if let Op::CreateFile { path, .. } = &case.op {
        if let Some(id) = lib_fd_id {
            match k_lookup(rootfd, &Op::ResolveNofollow { path: path.clone() }, case.no_symlinks) {
                KOut::Obj { id: kid, .. } => {
                    fd_matches_path = Some(kid == id);
                    fd_info = Some(format!("descriptor ino {} vs path ino {}", id.ino, kid.ino));
                }
                other => {
                    fd_matches_path = Some(false);
                    fd_info = Some(format!("path does not resolve afterwards: {}", other.brief()));
                }
            }
        }
        if let (Some(a), Some(t)) = (lib_getfl, twin_fd) {
            getfl = Some((a, fcntl_getfl(t)));
        }
    }
    if let Some(t) = twin_fd {
        close(t);
    }
    let lib_tree = Snapshot::take_path(&sb.root()).projected();
    let twin_tree = Snapshot::take_path(&sb.twin()).projected();
    close(rootfd);
    close(twinfd);
    sb.destroy();
    Report { lib, twin, lib_tree, twin_tree, fd_matches_path, fd_info, getfl, parent_via_link_or_dotdot, final_exists }
}

fn backend(k: Kcfg) -> &'static str {
    if k.has_openat2() {
        "kernel"
    } else {
        "emulated"
    }
}

pub fn judge(case: &Case, rep: &Report, stats: &mut Stats) -> Result<(), Fail> {
    stats.eval();
    stats.class(&format!("op:{}", case.op.name()));
    stats.class(&format!("backend:{}", backend(case.kcfg)));
    stats.class(&format!("twin:{}", match &rep.twin {
        TwinOut::Ok => "Ok".to_string(),
        TwinOut::Inval => "trailing-slash".to_string(),
        TwinOut::Err(e) => errno_name(*e),
    }));
    if rep.parent_via_link_or_dotdot {
        stats.class("parent-via-link-or-dotdot");
    }
    if rep.final_exists {
        stats.class("final-name-exists");
    }
    if case.capi {
        stats.class("via-c-api");
    }
    if rep.parent_via_link_or_dotdot || rep.final_exists {
        stats.nontrivial_key(&format!("{}|{:?}|{:?}|{}|{}|{}", case.tree.hash(), case.op, case.kcfg, case.no_symlinks, case.umask, case.capi));
        stats.sample(|| json!({"op": case.op.brief(), "backend": backend(case.kcfg), "library": rep.lib.brief(), "raw_at_call_on_twin": format!("{:?}", rep.twin), "parent_via_link_or_dotdot": rep.parent_via_link_or_dotdot, "final_exists": rep.final_exists}));
        stats.class_sample(&format!("{}:{:?}", case.op.name(), rep.twin), || json!({"op": case.op.brief(), "library": rep.lib.brief()}));
    }
    let mk = |sig: String, msg: String| -> Fail {
        Fail::Violation(Violation {
            check: "single-entry".into(),
            signature: sig,
            message: format!("{}{} via {} backend{} umask {:o}\n  library        : {}\n  raw call on twin: {:?}\n  {}", case.op.brief(), if case.capi { " [C]" } else { "" }, backend(case.kcfg), if case.no_symlinks { " NO_SYMLINKS" } else { "" }, case.umask, rep.lib.brief(), rep.twin, msg),
            case: serde_json::to_value(case).unwrap(),
        })
    };
    if let Out::Panicked(m) = &rep.lib {
        return Err(mk(format!("panic:{}", case.op.name()), format!("library panicked: {}", m)));
    }
    // persistent EAGAIN: environment
    if matches!(&rep.lib, Out::Err { errno: Some(e), .. } if *e == libc::EAGAIN) || (case.kcfg.has_openat2() && matches!(&rep.lib, Out::Err { kind, .. } if kind == "safety")) {
        stats.count("discarded_persistent_EAGAIN", 1);
        return Ok(());
    }
    // a NUL byte cannot be part of a name: no raw call exists to compare with. The call
    // must fail (which check refuses it first is not prescribed) and change nothing --
    // in particular it must not act on the name truncated at the NUL.
    if case.op.has_nul() {
        stats.class("nul-in-argument");
        if rep.lib.is_ok() {
            return Err(mk(format!("nul-accepted:{}", case.op.name()), "an argument with an embedded NUL byte was accepted".into()));
        }
        if rep.lib_tree != rep.twin_tree {
            return Err(mk(format!("nul-effect:{}", case.op.name()), "a call with an embedded NUL byte changed the tree".into()));
        }
        return Ok(());
    }
    let agree = match (&rep.lib, &rep.twin) {
        (o, TwinOut::Ok) => o.is_ok(),
        (Out::Err { kind, .. }, TwinOut::Inval) => kind == "inval",
        (Out::Err { errno: Some(e), kind }, TwinOut::Err(t)) => e == t && kind != "inval",
        _ => false,
    };
    if !agree {
        let t = match &rep.twin {
            TwinOut::Ok => "Ok".to_string(),
            TwinOut::Inval => "InvalidArgument".to_string(),
            TwinOut::Err(e) => errno_name(*e),
        };
        return Err(mk(format!("outcome:{}:lib={}:raw={}", case.op.name(), rep.lib.class(), t), "the library's outcome differs from the raw *at call on (in-root parent, final name)".into()));
    }
    if rep.lib_tree != rep.twin_tree {
        let mut d = vec![];
        for (p, e) in &rep.lib_tree {
            match rep.twin_tree.get(p) {
                None => d.push(format!("only after the library call: {} {}", p, e)),
                Some(f) if f != e => d.push(format!("differs: {}: library {} / raw {}", p, e, f)),
                _ => {}
            }
        }
        for (p, e) in &rep.twin_tree {
            if !rep.lib_tree.contains_key(p) {
                d.push(format!("only after the raw call: {} {}", p, e));
            }
        }
        return Err(mk(format!("effect:{}", case.op.name()), format!("resulting trees differ:\n  {}", d.join("\n  "))));
    }
    if rep.fd_matches_path == Some(false) {
        return Err(mk("create_file:fd-is-not-the-file".into(), rep.fd_info.clone().unwrap_or_default()));
    }
    if let Some((a, t)) = rep.getfl {
        const M: i32 = libc::O_ACCMODE | libc::O_APPEND | libc::O_NONBLOCK | libc::O_SYNC | libc::O_DSYNC | libc::O_NOATIME | libc::O_DIRECTORY | libc::O_PATH;
        if a & M != t & M {
            return Err(mk("create_file:getfl".into(), format!("F_GETFL differs: library 0x{:x}, raw openat 0x{:x}", a & M, t & M)));
        }
    }
    Ok(())
}

/// How many link bodies does the emulated walk read for this op? (carve-out check)
fn count_readlinks(case: &Case) -> usize {
    let sb = Sandbox::create("c14t");
    sb.materialise(&case.tree, &sb.root());
    let rootpath = sb.root();
    let policy = Policy { observe: true, kinds: false, ..Policy::default() };
    let n = with_session(case.kcfg, Some(policy), |s| {
        s.run(|wg, st| {
            if let Ok(r) = open_root(&rootpath, case.no_symlinks) {
                st.root = Some(r);
                wg.enter(1);
                let (_o, fd) = exec_op(st.root.as_ref().unwrap(), &case.op, false);
                drop(fd);
                wg.exit();
                st.root = None;
            }
        });
        s.take_calls().iter().map(|c| c.trace.iter().filter(|x| x.name == "readlinkat").count()).sum::<usize>()
    });
    sb.destroy();
    n
}

pub fn check(case: &Case, stats: &mut Stats) -> Result<(), Fail> {
    stable(&check_once, case, stats, 3)
}

pub fn check_once(case: &Case, stats: &mut Stats) -> Result<(), Fail> {
    match run_in_child(60.0, || child(case)) {
        ChildOut::Ok(rep) => {
            // more than 40 link traversals: kernel budget 40, emulated budget 128
            if !case.kcfg.has_openat2() && rep.twin == TwinOut::Err(libc::ELOOP) && rep.lib.errno() != Some(libc::ELOOP) && !case.no_symlinks {
                if let ChildOut::Ok(n) = run_in_child(60.0, || count_readlinks(case)) {
                    if n > 40 {
                        stats.count("discarded_over_40_traversals", 1);
                        return Ok(());
                    }
                }
            }
            judge(case, &rep, stats)
        }
        ChildOut::Crashed { sig } => Err(Fail::Violation(Violation { check: "single-entry".into(), signature: format!("crash:sig{}", sig), message: format!("child died with signal {}", sig), case: serde_json::to_value(case).unwrap() })),
        ChildOut::Exit { code, stderr_hint } => Err(Fail::Harness(format!("child exit {}: {}", code, stderr_hint))),
        ChildOut::Timeout => Err(Fail::Harness("child timed out".into())),
    }
}

// ---------------------------------------------------------------------------
// create_file against the kernel's own policy for O_CREAT opens of existing files in
// sticky directories (fs.protected_regular / fs.protected_fifos): the raw
// openat(parent, name, O_CREAT|O_NOFOLLOW) is the reference, whatever it says.

const PR_REGULAR: &str = "/proc/sys/fs/protected_regular";
const PR_FIFOS: &str = "/proc/sys/fs/protected_fifos";
const PR_SAVED: &str = "/dev/shm/pv.protected_creat.saved";
const PR_LOCK: &str = "/dev/shm/pv.sysctl.lock";

fn rd(p: &str) -> Option<u32> {
    std::fs::read_to_string(p).ok().and_then(|s| s.trim().parse().ok())
}
fn wr(p: &str, v: u32) -> bool {
    std::fs::write(p, format!("{}\n", v)).is_ok()
}

/// If an earlier run was killed before it could restore the two sysctls, do it now.
pub fn restore_if_orphaned() {
    if let Ok(s) = std::fs::read_to_string(PR_SAVED) {
        let c = CString::new(PR_LOCK).unwrap();
        let fd = unsafe { libc::open(c.as_ptr(), libc::O_RDWR | libc::O_CREAT | libc::O_CLOEXEC, 0o600) };
        if fd >= 0 {
            if unsafe { libc::flock(fd, libc::LOCK_EX | libc::LOCK_NB) } == 0 {
                let v: Vec<u32> = s.split_whitespace().filter_map(|x| x.parse().ok()).collect();
                if v.len() == 2 {
                    wr(PR_REGULAR, v[0]);
                    wr(PR_FIFOS, v[1]);
                }
                let _ = std::fs::remove_file(PR_SAVED);
                unsafe { libc::flock(fd, libc::LOCK_UN) };
            }
            unsafe { libc::close(fd) };
        }
    }
}

struct ProtGuard {
    saved: (u32, u32),
    lockfd: i32,
}

impl ProtGuard {
    fn take() -> Result<ProtGuard, String> {
        let c = CString::new(PR_LOCK).unwrap();
        let fd = unsafe { libc::open(c.as_ptr(), libc::O_RDWR | libc::O_CREAT | libc::O_CLOEXEC, 0o600) };
        if fd < 0 {
            return Err("cannot open the sysctl lock file".into());
        }
        if unsafe { libc::flock(fd, libc::LOCK_EX) } != 0 {
            return Err("cannot lock".into());
        }
        if let Ok(s) = std::fs::read_to_string(PR_SAVED) {
            let v: Vec<u32> = s.split_whitespace().filter_map(|x| x.parse().ok()).collect();
            if v.len() == 2 {
                wr(PR_REGULAR, v[0]);
                wr(PR_FIFOS, v[1]);
            }
        }
        let saved = (rd(PR_REGULAR).ok_or("cannot read fs.protected_regular")?, rd(PR_FIFOS).ok_or("cannot read fs.protected_fifos")?);
        std::fs::write(PR_SAVED, format!("{} {}\n", saved.0, saved.1)).map_err(|e| e.to_string())?;
        Ok(ProtGuard { saved, lockfd: fd })
    }
}

impl Drop for ProtGuard {
    fn drop(&mut self) {
        wr(PR_REGULAR, self.saved.0);
        wr(PR_FIFOS, self.saved.1);
        let _ = std::fs::remove_file(PR_SAVED);
        unsafe {
            libc::flock(self.lockfd, libc::LOCK_UN);
            libc::close(self.lockfd);
        }
    }
}

#[derive(Clone, Debug, Serialize, Deserialize)]
pub struct ProtCase {
    pub level: u32,
    pub dir_mode: u32,
    pub dir_owner: u32,
    pub file_owner: u32,
    pub fifo: bool,
    pub flags: i32,
    pub caller: u32,
    pub kcfg: Kcfg,
}

pub fn prot_cases() -> Vec<ProtCase> {
    let mut v = vec![];
    for level in [0u32, 1, 2] {
        for dir_mode in [0o1777u32, 0o1775, 0o777, 0o1755] {
            for dir_owner in [0u32, 1000] {
                for file_owner in [0u32, 1000, 1001] {
                    for fifo in [false, true] {
                        for flags in [libc::O_WRONLY, libc::O_WRONLY | libc::O_TRUNC, libc::O_RDWR, libc::O_RDWR | libc::O_EXCL] {
                            for caller in [0u32, 1000] {
                                let kcfg = if (v.len() / 2) % 2 == 0 { Kcfg::NoMountApi } else { Kcfg::NoOpenat2NoMountApi };
                                v.push(ProtCase { level, dir_mode, dir_owner, file_owner, fifo, flags, caller, kcfg });
                            }
                        }
                    }
                }
            }
        }
    }
    v
}

#[derive(Clone, Debug, Serialize, Deserialize)]
pub struct ProtReport {
    pub lib: Out,
    pub raw: Result<(), i32>,
    pub size_lib: Option<u64>,
    pub size_raw: Option<u64>,
    pub setup_problem: Option<String>,
    pub levels_seen: (Option<u32>, Option<u32>),
}

pub fn prot_child(case: &ProtCase) -> ProtReport {
    let mut rep = ProtReport { lib: Out::Unit, raw: Ok(()), size_lib: None, size_raw: None, setup_problem: None, levels_seen: (rd(PR_REGULAR), rd(PR_FIFOS)) };
    let sb = Sandbox::create("c14p");
    let cp = |p: &std::path::Path| CString::new(p.as_os_str().as_encoded_bytes()).unwrap();
    unsafe { libc::chmod(cp(&sb.base).as_ptr(), 0o755) };
    let root = sb.root();
    unsafe { libc::chmod(cp(&root).as_ptr(), 0o755) };
    for d in ["sp", "sp2"] {
        let dir = root.join(d);
        mkdir_p(&dir);
        let job = dir.join("job");
        if case.fifo {
            unsafe { libc::mkfifo(cp(&job).as_ptr(), 0o666) };
        } else {
            std::fs::write(&job, b"nineteen bytes here").unwrap();
        }
        unsafe {
            libc::chmod(cp(&job).as_ptr(), 0o666);
            libc::chown(cp(&job).as_ptr(), case.file_owner, case.file_owner);
            libc::chown(cp(&dir).as_ptr(), case.dir_owner, case.dir_owner);
            libc::chmod(cp(&dir).as_ptr(), case.dir_mode);
        }
    }
    if case.caller != 0 {
        unsafe {
            if libc::setgroups(0, std::ptr::null()) != 0 || libc::syscall(libc::SYS_setresgid, case.caller, case.caller, case.caller) != 0 || libc::syscall(libc::SYS_setresuid, case.caller, case.caller, case.caller) != 0 {
                rep.setup_problem = Some(format!("become uid {}: {}", case.caller, errno_name(errno())));
                return rep;
            }
            libc::prctl(libc::PR_SET_DUMPABLE, 1, 0, 0, 0);
        }
    }
    // a FIFO must not block the opener
    let flags = case.flags | libc::O_NONBLOCK;
    // reference: the raw call on the twin directory
    match openat_raw(libc::AT_FDCWD, root.join("sp2").as_os_str().as_encoded_bytes(), libc::O_PATH | libc::O_DIRECTORY, 0) {
        Ok(d) => {
            rep.raw = match openat_raw(d, b"job", flags | libc::O_CREAT | libc::O_NOFOLLOW, 0o600) {
                Ok(fd) => {
                    close(fd);
                    Ok(())
                }
                Err(e) => Err(e),
            };
            close(d);
        }
        Err(e) => {
            rep.setup_problem = Some(format!("open twin dir as the caller: {}", errno_name(e)));
            return rep;
        }
    }
    let op = Op::CreateFile { path: B::new("sp/job"), flags, mode: 0o600 };
    rep.lib = with_session(case.kcfg, None, |s| {
        s.run(|_wg, _st| match open_root(&root, false) {
            Ok(r) => {
                let (o, fd) = exec_op(&r, &op, false);
                drop(fd);
                o
            }
            Err(o) => o,
        })
    });
    rep.size_lib = std::fs::symlink_metadata(root.join("sp/job")).ok().map(|m| m.len());
    rep.size_raw = std::fs::symlink_metadata(root.join("sp2/job")).ok().map(|m| m.len());
    rep
}

pub fn prot_check(case: &ProtCase, stats: &mut Stats) -> Result<(), Fail> {
    let r = run_in_child(60.0, || prot_child(case));
    // the child may be unprivileged: the parent removes its sandbox
    if let Ok(rd) = std::fs::read_dir(scratch_base()) {
        for e in rd.flatten() {
            let n = e.file_name().to_string_lossy().to_string();
            if n.ends_with(".c14p") && n.starts_with("pv.") {
                let pid: i32 = n.split('.').nth(1).and_then(|x| x.parse().ok()).unwrap_or(0);
                if unsafe { libc::kill(pid, 0) } != 0 {
                    rm_rf(&e.path());
                }
            }
        }
    }
    let rep = match r {
        ChildOut::Ok(rep) => rep,
        ChildOut::Crashed { sig } => return Err(Fail::Harness(format!("child died with signal {}", sig))),
        ChildOut::Exit { code, stderr_hint } => return Err(Fail::Harness(format!("child exit {}: {}", code, stderr_hint))),
        ChildOut::Timeout => return Err(Fail::Harness("child timed out".into())),
    };
    if let Some(p) = &rep.setup_problem {
        return Err(Fail::Harness(format!("setup: {}", p)));
    }
    if rep.levels_seen != (Some(case.level), Some(case.level)) {
        return Err(Fail::Harness(format!("fs.protected_regular/fifos are {:?}, the case needs {}", rep.levels_seen, case.level)));
    }
    stats.eval();
    stats.class(&format!("protected-level:{}", case.level));
    stats.class(&format!("raw:{}", match &rep.raw { Ok(()) => "Ok".to_string(), Err(e) => errno_name(*e) }));
    let sticky = case.dir_mode & 0o1000 != 0;
    if case.level > 0 && sticky && case.file_owner != case.caller {
        stats.nontrivial_key(&format!("{:?}", case));
        stats.sample(|| json!({"case": format!("{:?}", case), "raw_openat_O_CREAT": format!("{:?}", rep.raw.map_err(errno_name)), "library": rep.lib.brief()}));
    }
    let mk = |sig: String, msg: String| -> Fail {
        Fail::Violation(Violation {
            check: "protected-creat".into(),
            signature: sig,
            message: format!("create_file(\"sp/job\", 0x{:x}, 0o600) on an existing {} owned by {} in a directory of mode {:o} owned by {}, caller uid {}, fs.protected_regular = fs.protected_fifos = {}, {} backend\n  raw openat(parent, \"job\", flags|O_CREAT|O_NOFOLLOW): {:?}\n  library: {}\n  size afterwards: library side {:?}, raw side {:?}\n  {}", case.flags, if case.fifo { "FIFO" } else { "file" }, case.file_owner, case.dir_mode, case.dir_owner, case.caller, case.level, backend(case.kcfg), rep.raw.map_err(errno_name), rep.lib.brief(), rep.size_lib, rep.size_raw, msg),
            case: serde_json::to_value(case).unwrap(),
        })
    };
    if let Out::Panicked(m) = &rep.lib {
        return Err(mk("prot-panic".into(), format!("library panicked: {}", m)));
    }
    let agree = match (&rep.lib, &rep.raw) {
        (o, Ok(())) => o.is_ok(),
        (Out::Err { errno: Some(e), .. }, Err(r)) => e == r,
        _ => false,
    };
    if !agree {
        return Err(mk(format!("protected-creat:outcome:lib={}:raw={}", rep.lib.class(), match &rep.raw { Ok(()) => "Ok".to_string(), Err(e) => errno_name(*e) }), "the library's outcome differs from the raw O_CREAT open of (parent, name)".into()));
    }
    if rep.size_lib != rep.size_raw {
        return Err(mk("protected-creat:effect".into(), "the file was changed differently from the raw call".into()));
    }
    Ok(())
}

fn prot_lane(ctx: &Ctx, lr: &mut LaneResult) {
    if ctx.lane != 0 {
        return;
    }
    let guard = match ProtGuard::take() {
        Ok(g) => g,
        Err(e) => {
            lr.harness_errors.push(format!("sysctl guard: {}", e));
            return;
        }
    };
    let cases = prot_cases();
    let one = Ctx { lane: 0, lanes: 1, ..ctx.clone() };
    for level in [0u32, 1, 2] {
        if !wr(PR_REGULAR, level) || !wr(PR_FIFOS, level) {
            lr.harness_errors.push("cannot write fs.protected_regular / fs.protected_fifos".into());
            break;
        }
        // quick: every third combination of each level (rotating); thorough: all
        let stride = ctx.tier.pick(3usize, 1usize);
        let sel: Vec<ProtCase> = cases.iter().filter(|c| c.level == level).skip(level as usize % stride).step_by(stride).cloned().collect();
        run_fixed(&one, lr, "protected-creat", &sel, &prot_check);
        if !lr.violations.is_empty() {
            break;
        }
    }
    drop(guard);
}

fn run_lane(ctx: &Ctx, lr: &mut LaneResult) {
    search(ctx, lr, "single-entry", ctx.tier.pick(16000, 160000), strategy(), &check);
    if lr.violations.is_empty() {
        prot_lane(ctx, lr);
    }
}

fn replay(_ctx: &Ctx, check_name: &str, case: &Value) -> Result<(), Fail> {
    if check_name == "protected-creat" {
        let case: ProtCase = serde_json::from_value(case.clone()).map_err(|e| Fail::Harness(format!("bad case: {}", e)))?;
        let guard = ProtGuard::take().map_err(Fail::Harness)?;
        wr(PR_REGULAR, case.level);
        wr(PR_FIFOS, case.level);
        let mut s = Stats::default();
        let r = prot_check(&case, &mut s);
        drop(guard);
        return r;
    }
    let case: Case = serde_json::from_value(case.clone()).map_err(|e| Fail::Harness(format!("bad case: {}", e)))?;
    let mut s = Stats::default();
    check(&case, &mut s)
}

pub const PROP: Prop = Prop {
    id: "C14",
    level: "exploration",
    rule: "twin copies of a generated tree x one single-entry operation (create file/dir/fifo/chr/symlink/hardlink, create_file with access mode x {O_EXCL,O_TRUNC,O_APPEND,O_NONBLOCK,O_CLOEXEC,O_DIRECTORY,O_NOFOLLOW}, remove_file, remove_dir, rename with flags {0,NOREPLACE,EXCHANGE,WHITEOUT,invalid}) x path spellings of every argument (through links, '..', '//', trailing slash, final '.'/'..', NUL) x mode x umask x backend x {Rust, C API incl. pathrs_inroot_mknod S_IFMT decoding}. On one copy the library call; on the other the harness resolves 'everything before the last slash' with its own openat2(RESOLVE_IN_ROOT) and issues the one raw *at system call on (that directory, final name). Oracle: same success / same errno (trailing slash => InvalidArgument), path-projected snapshots of both copies equal afterwards, and for create_file the returned descriptor is the inode now found at that path by a no-follow in-root lookup, with the same F_GETFL status bits as the raw open. A second, enumerated driver (lane 0, under a lock) sets fs.protected_regular = fs.protected_fifos to 0, 1 and 2 and compares create_file on an existing file / FIFO in directories of mode 1777 / 1775 / 0777 / 1755 (owner x file owner x caller uid x flags x backend; 1152 combinations, every third one in the quick tier) with the raw openat(parent, name, flags|O_CREAT|O_NOFOLLOW) as the same user: same outcome, same effect on the file. non-trivial = the parent is reached through a link or '..', or the final name already exists (first driver); protection level > 0, sticky directory and a file the caller does not own (second driver); distinct by (tree, op, kcfg, flags, umask, api)",
    assumptions: &["the running kernel's *at calls and openat2(RESOLVE_IN_ROOT) are the reference", "O_CREAT|O_PATH is excluded here (it does not create; covered by C03)", "tmpfs only"],
    lanes: |_| 16,
    run_lane,
    replay,
    extra: None,
    exhaustive: false,
};
