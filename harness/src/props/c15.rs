//! C15 — the emulated resolver enforces fs.protected_symlinks exactly like the kernel.

use crate::driver::*;
use crate::exec::*;
use crate::gate::*;
use crate::ops::*;
use crate::sandbox::*;
use crate::util::*;
use serde::{Deserialize, Serialize};
use serde_json::{json, Value};
use std::ffi::CString;

#[derive(Clone, Copy, Debug, PartialEq, Eq, Hash, Serialize, Deserialize)]
pub enum Position {
    TrailingFollow,
    TrailingNofollow,
    Intermediate,
    /// through the one-shot open entry point
    OpenSubpath,
    /// "dir/link/" with the link naming a directory: still the trailing component
    TrailingSlash,
    /// "dir/link/." : the link is an intermediate component
    TrailingDot,
    /// a trailing link whose body ends in another link of the same directory
    TrailingChain,
    /// no-follow lookup of "dir/link/": the slash makes the kernel follow the link after all
    NofollowSlash,
    /// "dir/link//"
    NofollowSlashes,
    /// one-shot open of "dir/link/" with O_NOFOLLOW|O_DIRECTORY
    OpenNofollowSlash,
    /// no-follow lookup of "dir/link/."
    NofollowDot,
}

#[derive(Clone, Debug, Serialize, Deserialize)]
pub struct Case {
    pub dir_mode: u32,
    pub dir_owner: u32,
    pub link_owner: u32,
    /// (real uid, effective uid) of the caller
    pub caller: (u32, u32),
    pub position: Position,
    pub sysctl: u32,
    /// the process already did the same lookup under another effective uid (root, or
    /// uid 1000 when the caller is root) before it became the caller
    #[serde(default)]
    pub warm: bool,
    /// the earlier lookup in this process could not read the sysctl (ENOENT on
    /// .../fs/protected_symlinks): that failure must not be remembered as a value
    #[serde(default)]
    pub poison: bool,
}

pub fn all_cases() -> Vec<Case> {
    let mut v = vec![];
    for sysctl in [0u32, 1] {
        for dir_mode in [0o755u32, 0o777, 0o1777, 0o1775, 0o1755] {
            for dir_owner in [0u32, 1000, 1001] {
                for link_owner in [0u32, 1000, 1001] {
                    for caller in [(0u32, 0u32), (1000, 1000), (1001, 1001), (1001, 1000)] {
                        for position in [Position::TrailingFollow, Position::TrailingNofollow, Position::Intermediate, Position::OpenSubpath, Position::TrailingSlash, Position::TrailingDot, Position::TrailingChain, Position::NofollowSlash, Position::NofollowSlashes, Position::OpenNofollowSlash, Position::NofollowDot] {
                            for warm in [false, true] {
                                v.push(Case { dir_mode, dir_owner, link_owner, caller, position, sysctl, warm, poison: false });
                            }
                            if sysctl == 1 && matches!(position, Position::TrailingFollow | Position::NofollowSlash) {
                                v.push(Case { dir_mode, dir_owner, link_owner, caller, position, sysctl, warm: true, poison: true });
                            }
                        }
                    }
                }
            }
        }
    }
    v
}

const SYSCTL: &str = "/proc/sys/fs/protected_symlinks";
const SAVED: &str = "/dev/shm/pv.protected_symlinks.saved";
const LOCK: &str = "/dev/shm/pv.sysctl.lock";

pub fn read_sysctl() -> Option<u32> {
    std::fs::read_to_string(SYSCTL).ok().and_then(|s| s.trim().parse().ok())
}
pub fn write_sysctl(v: u32) -> bool {
    std::fs::write(SYSCTL, format!("{}\n", v)).is_ok()
}

/// If an earlier run was killed before it could restore the sysctl, do it now.
pub fn restore_if_orphaned() {
    if let Ok(s) = std::fs::read_to_string(SAVED) {
        let c = CString::new(LOCK).unwrap();
        let fd = unsafe { libc::open(c.as_ptr(), libc::O_RDWR | libc::O_CREAT | libc::O_CLOEXEC, 0o600) };
        if fd >= 0 {
            if unsafe { libc::flock(fd, libc::LOCK_EX | libc::LOCK_NB) } == 0 {
                if let Ok(v) = s.trim().parse::<u32>() {
                    write_sysctl(v);
                }
                let _ = std::fs::remove_file(SAVED);
                unsafe { libc::flock(fd, libc::LOCK_UN) };
            }
            unsafe { libc::close(fd) };
        }
    }
}

struct SysctlGuard {
    saved: u32,
    lockfd: i32,
}

static mut SAVED_FOR_SIGNAL: i32 = -1;

extern "C" fn on_term(_sig: libc::c_int) {
    unsafe {
        if SAVED_FOR_SIGNAL >= 0 {
            let c = b"/proc/sys/fs/protected_symlinks\0";
            let fd = libc::open(c.as_ptr() as *const libc::c_char, libc::O_WRONLY);
            if fd >= 0 {
                let b: [u8; 2] = [b'0' + SAVED_FOR_SIGNAL as u8, b'\n'];
                libc::write(fd, b.as_ptr() as *const libc::c_void, 2);
                libc::close(fd);
            }
            libc::unlink(b"/dev/shm/pv.protected_symlinks.saved\0".as_ptr() as *const libc::c_char);
        }
        libc::_exit(130);
    }
}

impl SysctlGuard {
    fn take() -> Result<SysctlGuard, String> {
        let c = CString::new(LOCK).unwrap();
        let fd = unsafe { libc::open(c.as_ptr(), libc::O_RDWR | libc::O_CREAT | libc::O_CLOEXEC, 0o600) };
        if fd < 0 {
            return Err("cannot open the sysctl lock file".into());
        }
        if unsafe { libc::flock(fd, libc::LOCK_EX) } != 0 {
            return Err("cannot lock".into());
        }
        // a previous holder may have died without restoring
        if let Ok(s) = std::fs::read_to_string(SAVED) {
            if let Ok(v) = s.trim().parse::<u32>() {
                write_sysctl(v);
            }
        }
        let saved = read_sysctl().ok_or("cannot read fs.protected_symlinks")?;
        std::fs::write(SAVED, format!("{}\n", saved)).map_err(|e| e.to_string())?;
        unsafe {
            SAVED_FOR_SIGNAL = saved as i32;
            libc::signal(libc::SIGTERM, on_term as usize);
            libc::signal(libc::SIGINT, on_term as usize);
            libc::signal(libc::SIGHUP, on_term as usize);
        }
        Ok(SysctlGuard { saved, lockfd: fd })
    }
}

impl Drop for SysctlGuard {
    fn drop(&mut self) {
        write_sysctl(self.saved);
        let _ = std::fs::remove_file(SAVED);
        unsafe {
            SAVED_FOR_SIGNAL = -1;
            libc::flock(self.lockfd, libc::LOCK_UN);
            libc::close(self.lockfd);
        }
    }
}

#[derive(Clone, Debug, Serialize, Deserialize)]
pub struct Report {
    pub emulated: Out,
    pub kernel_backend: Out,
    pub oracle: KOut,
    pub setup_problem: Option<String>,
    pub sysctl_seen: Option<u32>,
}

fn c(p: &std::path::Path) -> CString {
    CString::new(p.as_os_str().as_encoded_bytes()).unwrap()
}

/// One process = one back-end (the library picks it once per process).
pub fn child(case: &Case, kcfg: Kcfg) -> Report {
    let mut rep = Report { emulated: Out::Unit, kernel_backend: Out::Unit, oracle: KOut::Err(0), setup_problem: None, sysctl_seen: read_sysctl() };
    let sb = Sandbox::create("c15");
    unsafe { libc::chmod(c(&sb.base).as_ptr(), 0o755) };
    let root = sb.root();
    unsafe { libc::chmod(c(&root).as_ptr(), 0o755) };
    let sticky = root.join("s");
    mkdir_p(&sticky);
    std::fs::write(sticky.join("t"), b"target").unwrap();
    mkdir_p(&sticky.join("td"));
    std::fs::write(sticky.join("td/x"), b"inner").unwrap();
    let body = match case.position {
        Position::Intermediate | Position::TrailingSlash | Position::TrailingDot | Position::NofollowSlash | Position::NofollowSlashes | Position::OpenNofollowSlash | Position::NofollowDot => "td",
        Position::TrailingChain => "l2",
        _ => "t",
    };
    std::os::unix::fs::symlink(body, sticky.join("l")).unwrap();
    // second link of a chain: owned by root (the caller may or may not match)
    std::os::unix::fs::symlink("t", sticky.join("l2")).unwrap();
    unsafe {
        libc::chmod(c(&sticky.join("t")).as_ptr(), 0o644);
        libc::chmod(c(&sticky.join("td")).as_ptr(), 0o755);
        libc::lchown(c(&sticky.join("l")).as_ptr(), case.link_owner, case.link_owner);
        libc::chown(c(&sticky).as_ptr(), case.dir_owner, case.dir_owner);
        libc::chmod(c(&sticky).as_ptr(), case.dir_mode);
    }
    let op = match case.position {
        Position::TrailingFollow => Op::Resolve { path: B::new("s/l") },
        Position::TrailingNofollow => Op::ResolveNofollow { path: B::new("s/l") },
        Position::Intermediate => Op::Resolve { path: B::new("s/l/x") },
        Position::OpenSubpath => Op::Open { path: B::new("s/l"), flags: libc::O_RDONLY },
        Position::TrailingSlash => Op::Resolve { path: B::new("s/l/") },
        Position::TrailingDot => Op::Resolve { path: B::new("s/l/.") },
        Position::TrailingChain => Op::Resolve { path: B::new("s/l") },
        Position::NofollowSlash => Op::ResolveNofollow { path: B::new("s/l/") },
        Position::NofollowSlashes => Op::ResolveNofollow { path: B::new("s/l//") },
        Position::OpenNofollowSlash => Op::Open { path: B::new("s/l/"), flags: libc::O_RDONLY | libc::O_DIRECTORY | libc::O_NOFOLLOW },
        Position::NofollowDot => Op::ResolveNofollow { path: B::new("s/l/.") },
    };
    let run = |k: Kcfg| -> Out {
        with_session(k, None, |s| {
            s.run(|_wg, _st| match open_root(&root, false) {
                Ok(r) => {
                    let (o, fd) = exec_op(&r, &op, false);
                    drop(fd);
                    o
                }
                Err(o) => o,
            })
        })
    };
    // the same lookup under another effective uid first: the verdict must be made for
    // whoever calls, not for whoever called first in this process
    if case.warm {
        let wuid: u32 = if case.caller.1 == 0 { 1000 } else { 0 };
        unsafe {
            if wuid != 0 && libc::syscall(libc::SYS_setresuid, -1i32, wuid, -1i32) != 0 {
                rep.setup_problem = Some(format!("seteuid({}): {}", wuid, errno_name(errno())));
                return rep;
            }
        }
        if case.poison {
            let hook: Hook = Box::new(|sys: &Sys, _c: &mut CallRec| if sys.paths.iter().any(|p| p.0.ends_with(b"protected_symlinks")) { Action::Errno(libc::ENOENT) } else { Action::Continue });
            let policy = Policy { observe: false, kinds: false, hook: Some(hook), ..Policy::default() };
            let _ = with_session(kcfg, Some(policy), |s| {
                s.run(|wg, _st| {
                    if let Ok(r) = open_root(&root, false) {
                        wg.enter(1);
                        let (_o, fd) = exec_op(&r, &op, false);
                        drop(fd);
                        wg.exit();
                    }
                })
            });
        } else {
            let _ = run(kcfg);
        }
        unsafe {
            if wuid != 0 && libc::syscall(libc::SYS_setresuid, -1i32, 0u32, -1i32) != 0 {
                rep.setup_problem = Some(format!("seteuid(0): {}", errno_name(errno())));
                return rep;
            }
        }
    }
    // become the caller
    if case.caller != (0, 0) {
        unsafe {
            if libc::setgroups(0, std::ptr::null()) != 0 || libc::syscall(libc::SYS_setresgid, case.caller.1, case.caller.1, case.caller.1) != 0 {
                rep.setup_problem = Some(format!("setresgid: {}", errno_name(errno())));
                return rep;
            }
            if libc::syscall(libc::SYS_setresuid, case.caller.0, case.caller.1, case.caller.1) != 0 {
                rep.setup_problem = Some(format!("setresuid: {}", errno_name(errno())));
                return rep;
            }
            libc::prctl(libc::PR_SET_DUMPABLE, 1, 0, 0, 0);
        }
    }
    let rootfd = match openat_raw(libc::AT_FDCWD, root.as_os_str().as_encoded_bytes(), libc::O_PATH | libc::O_DIRECTORY, 0) {
        Ok(f) => f,
        Err(e) => {
            rep.setup_problem = Some(format!("open root as caller: {}", errno_name(e)));
            return rep;
        }
    };
    rep.oracle = k_lookup(rootfd, &op, false);
    let out = run(kcfg);
    if kcfg.has_openat2() {
        rep.kernel_backend = out;
    } else {
        rep.emulated = out;
    }
    close(rootfd);
    rep
}

fn kernel_rule(case: &Case) -> bool {
    // the documented kernel rule (used for classification only, never to convict)
    let sticky_ww = case.dir_mode & 0o1002 == 0o1002;
    case.sysctl == 0 || case.link_owner == case.caller.1 || !sticky_ww || case.link_owner == case.dir_owner
}

fn agree(lib: &Out, k: &KOut) -> bool {
    match (lib, k) {
        (Out::Fd(o), KOut::Obj { id, ftype, .. }) => o.id() == *id && o.ftype == *ftype,
        (Out::Err { errno: Some(e), .. }, KOut::Err(k)) => e == k,
        _ => false,
    }
}

pub fn judge(case: &Case, rep: &Report, stats: &mut Stats) -> Result<(), Fail> {
    if let Some(p) = &rep.setup_problem {
        return Err(Fail::Harness(format!("setup: {}", p)));
    }
    if rep.sysctl_seen != Some(case.sysctl) {
        return Err(Fail::Harness(format!("fs.protected_symlinks is {:?}, the case needs {}", rep.sysctl_seen, case.sysctl)));
    }
    stats.eval();
    stats.class(&format!("sysctl:{}", case.sysctl));
    stats.class(&format!("kernel:{}", rep.oracle.class()));
    stats.class(&format!("position:{:?}", case.position));
    // the kernel applies the rule to trailing links only (WALK_TRAILING)
    let checked = matches!(case.position, Position::TrailingFollow | Position::OpenSubpath | Position::TrailingSlash | Position::TrailingChain | Position::NofollowSlash | Position::NofollowSlashes | Position::OpenNofollowSlash);
    let second_link_denied = case.position == Position::TrailingChain && !kernel_rule(&Case { link_owner: 0, ..case.clone() });
    let denied_by_rule = checked && (!kernel_rule(case) || second_link_denied);
    if denied_by_rule != (rep.oracle == KOut::Err(libc::EACCES)) {
        stats.count("model_disagreements", 1);
    }
    let sticky_ww = case.dir_mode & 0o1002 == 0o1002;
    if sticky_ww && case.link_owner != case.caller.1 {
        stats.nontrivial_key(&format!("{:?}", case));
        stats.sample(|| json!({"case": format!("{:?}", case), "kernel_oracle": rep.oracle.brief(), "emulated": rep.emulated.brief(), "openat2_backend": rep.kernel_backend.brief()}));
        stats.class_sample(&format!("{}:{:?}:{}", case.sysctl, case.position, rep.oracle.class()), || json!({"case": format!("{:?}", case), "kernel_oracle": rep.oracle.brief(), "emulated": rep.emulated.brief()}));
    }
    let mk = |sig: String, which: &str, lib: &Out| -> Fail {
        Fail::Violation(Violation {
            check: "protected-symlinks".into(),
            signature: sig,
            message: format!(
                "directory mode {:o} owned by {}, link owned by {}, caller ruid {} euid {}{}, {:?}, fs.protected_symlinks={}\n  kernel (openat2 RESOLVE_IN_ROOT as the same user): {}\n  {} backend: {}",
                case.dir_mode,
                case.dir_owner,
                case.link_owner,
                case.caller.0,
                case.caller.1,
                if case.poison { " (after a lookup in this process whose read of the sysctl failed with ENOENT)" } else if case.warm { " (after the same lookup under another effective uid in this process)" } else { "" },
                case.position,
                case.sysctl,
                rep.oracle.brief(),
                which,
                lib.brief()
            ),
            case: serde_json::to_value(case).unwrap(),
        })
    };
    for (which, lib) in [("emulated", &rep.emulated), ("openat2", &rep.kernel_backend)] {
        if *lib == Out::Unit {
            continue; // that back-end was not run for this case
        }
        if let Out::Panicked(_) = lib {
            return Err(mk(format!("panic:{}", which), which, lib));
        }
        if !agree(lib, &rep.oracle) {
            let dir = if rep.oracle == KOut::Err(libc::EACCES) { "kernel-refuses-library-follows" } else if lib.errno() == Some(libc::EACCES) { "library-refuses-kernel-follows" } else { "other" };
            return Err(mk(format!("{}:{}:{:?}:sysctl{}", which, dir, case.position, case.sysctl), which, lib));
        }
    }
    Ok(())
}

pub fn check_once(case: &Case, stats: &mut Stats) -> Result<(), Fail> {
    let r = run_in_child(60.0, || child(case, Kcfg::NoOpenat2NoMountApi));
    // the openat2 back-end is the kernel itself; it is run (in its own process, judged
    // against that process's own kernel oracle) as a cross-check of the harness for
    // the plain cases only
    let r2 = if !case.warm { Some(run_in_child(60.0, || child(case, Kcfg::NoMountApi))) } else { None };
    // the child may be unprivileged: the parent removes its sandbox
    if let Ok(rd) = std::fs::read_dir(scratch_base()) {
        for e in rd.flatten() {
            let n = e.file_name().to_string_lossy().to_string();
            if n.ends_with(".c15") && n.starts_with("pv.") {
                let pid: i32 = n.split('.').nth(1).and_then(|x| x.parse().ok()).unwrap_or(0);
                if unsafe { libc::kill(pid, 0) } != 0 {
                    rm_rf(&e.path());
                }
            }
        }
    }
    if let Some(ChildOut::Ok(rep2)) = &r2 {
        if rep2.setup_problem.is_none() {
            judge(case, rep2, &mut Stats::default())?;
        }
    }
    match r {
        ChildOut::Ok(rep) => judge(case, &rep, stats),
        ChildOut::Crashed { sig } => Err(Fail::Violation(Violation { check: "protected-symlinks".into(), signature: format!("crash:sig{}", sig), message: format!("child died with signal {}", sig), case: serde_json::to_value(case).unwrap() })),
        ChildOut::Exit { code, stderr_hint } => Err(Fail::Harness(format!("child exit {}: {}", code, stderr_hint))),
        ChildOut::Timeout => Err(Fail::Harness("child timed out".into())),
    }
}

fn run_lane(ctx: &Ctx, lr: &mut LaneResult) {
    if ctx.lane != 0 {
        return;
    }
    let guard = match SysctlGuard::take() {
        Ok(g) => g,
        Err(e) => {
            lr.harness_errors.push(format!("sysctl guard: {}", e));
            return;
        }
    };
    let cases = all_cases();
    // quick: every 2nd combination (rotating so that both sysctl values and all positions are covered);
    // thorough: all of them
    let stride = ctx.tier.pick(1usize, 1usize);
    let one = Ctx { lane: 0, lanes: 1, ..ctx.clone() };
    for sysctl in [0u32, 1] {
        if !write_sysctl(sysctl) {
            lr.harness_errors.push("cannot write fs.protected_symlinks".into());
            break;
        }
        let sel: Vec<Case> = cases.iter().filter(|c| c.sysctl == sysctl).step_by(stride).cloned().collect();
        run_fixed(&one, lr, "protected-symlinks", &sel, &|c: &Case, s: &mut Stats| check_once(c, s));
        if !lr.violations.is_empty() {
            break;
        }
    }
    drop(guard);
}

fn replay(_ctx: &Ctx, _check: &str, case: &Value) -> Result<(), Fail> {
    let case: Case = serde_json::from_value(case.clone()).map_err(|e| Fail::Harness(format!("bad case: {}", e)))?;
    let guard = SysctlGuard::take().map_err(Fail::Harness)?;
    write_sysctl(case.sysctl);
    let mut s = Stats::default();
    let r = check_once(&case, &mut s);
    drop(guard);
    r
}

pub const PROP: Prop = Prop {
    id: "C15",
    level: "exploration",
    rule: "the full finite product (enumerated: 2 x 5 x 3 x 3 x 4 x 11 x 2 = 7920 cases, plus 360 in which the earlier lookup's read of the sysctl failed with ENOENT) of sysctl value {0,1} x directory mode {0755, 0777, 01777, 01775, 01755} x directory owner {0,1000,1001} x link owner {0,1000,1001} x caller {root, uid 1000, uid 1001, real 1001/effective 1000} x link position {trailing followed, trailing not followed, intermediate component, one-shot open, 'link/' , 'link/.', chain of two trailing links, and no-follow lookups of 'link/', 'link//', 'link/.' plus a one-shot O_NOFOLLOW|O_DIRECTORY open of 'link/'} x {fresh process; process that already did the same lookup under another effective uid}. The real fs.protected_symlinks is set (under a lock, restored on every exit path); each case runs in a child that builds the directory and link as root, becomes the caller, and then asks (a) the kernel itself: openat2(RESOLVE_IN_ROOT) as that user, (b) the library with openat2 -> ENOSYS (emulated walk), (c) in a separate process (the back-end is chosen once per process) the library's openat2 backend, for the fresh-process cases. Oracle: (b) and (c) equal (a): same object or same errno, EACCES exactly where the kernel says so. The documented rule (sticky & world-writable, link owner neither the caller's fsuid nor the directory owner) only classifies; its disagreement with the kernel is reported as model_disagreements. non-trivial = sticky world-writable directory and link not owned by the caller",
    assumptions: &["changes the system-wide fs.protected_symlinks for the duration of the run (serialised by a lock file, restored by guard, signal handler and by the next run if the process was killed)", "other checks are unaffected while it is 1: their links are owned by the caller"],
    lanes: |_| 1,
    run_lane,
    replay,
    extra: Some(|_| json!({"exhaustive_scope": "all 8280 combinations"})),
    exhaustive: true,
};
