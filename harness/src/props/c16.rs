//! C16 — C error ids are unique, consumed exactly once, and never look like an errno.

use crate::capi::*;
use crate::driver::*;
use crate::exec::*;
use crate::sandbox::*;
use crate::util::*;
use proptest::collection::vec;
use proptest::prelude::*;
use serde::{Deserialize, Serialize};
use serde_json::{json, Value};
use std::collections::HashMap;
use std::ffi::CString;
use std::sync::mpsc::{channel, Receiver, Sender};
use std::sync::{Arc, Barrier, Mutex, RwLock};

#[derive(Clone, Copy, Debug, PartialEq, Eq, Hash, Serialize, Deserialize)]
pub enum FailKind {
    Enoent,
    Enotdir,
    Eloop,
    EinvalNegFd,
    EinvalNullPath,
    EinvalBadBase,
    EinvalBadMode,
    EinvalTrailingSlash,
    EnosysSock,
    Eexist,
    Eisdir,
    Enotempty,
    ExdevProc,
    EbadfClosedFd,
}

pub const KINDS: [FailKind; 14] = [
    FailKind::Enoent,
    FailKind::Enotdir,
    FailKind::Eloop,
    FailKind::EinvalNegFd,
    FailKind::EinvalNullPath,
    FailKind::EinvalBadBase,
    FailKind::EinvalBadMode,
    FailKind::EinvalTrailingSlash,
    FailKind::EnosysSock,
    FailKind::Eexist,
    FailKind::Eisdir,
    FailKind::Enotempty,
    FailKind::ExdevProc,
    FailKind::EbadfClosedFd,
];

impl FailKind {
    pub fn errnos(&self) -> &'static [i32] {
        match self {
            FailKind::Enoent => &[libc::ENOENT],
            FailKind::Enotdir => &[libc::ENOTDIR],
            FailKind::Eloop => &[libc::ELOOP],
            FailKind::EinvalNegFd | FailKind::EinvalNullPath | FailKind::EinvalBadBase | FailKind::EinvalBadMode | FailKind::EinvalTrailingSlash => &[libc::EINVAL],
            FailKind::EnosysSock => &[libc::ENOSYS],
            FailKind::Eexist => &[libc::EEXIST],
            FailKind::Eisdir => &[libc::EISDIR],
            FailKind::Enotempty => &[libc::ENOTEMPTY],
            // leaving the procfs base: EXDEV from the kernel / from the restricted resolver
            FailKind::ExdevProc => &[libc::EXDEV],
            FailKind::EbadfClosedFd => &[libc::EBADF],
        }
    }
}

#[derive(Clone, Debug, PartialEq, Eq, Hash, Serialize, Deserialize)]
pub enum Act {
    Fail(FailKind),
    ConsumeOwn,
    /// give the oldest own id to thread (index mod threads)
    HandOff(u8),
    ConsumeReceived,
    ConsumeTwice,
    /// 2-4 threads ask for the same unconsumed id at the same moment
    ConsumeRacing(u8),
    /// fail on a root of one's own, close it, put another directory at that descriptor
    /// number, and only then fetch the error: it must still describe the failure as it happened
    FailCloseReuse,
    FreeNull,
    /// pathrs_errorinfo() of values that are not error ids
    InfoOfNonId(i32),
}

#[derive(Clone, Debug, Serialize, Deserialize)]
pub struct Case {
    pub threads: Vec<Vec<Act>>,
}

fn act() -> impl Strategy<Value = Act> {
    prop_oneof![
        10 => (0usize..KINDS.len()).prop_map(|i| Act::Fail(KINDS[i])),
        4 => Just(Act::ConsumeOwn),
        3 => any::<u8>().prop_map(Act::HandOff),
        3 => Just(Act::ConsumeReceived),
        2 => Just(Act::ConsumeTwice),
        1 => (0u8..3).prop_map(Act::ConsumeRacing),
        1 => Just(Act::FailCloseReuse),
        1 => Just(Act::FreeNull),
        1 => prop_oneof![Just(0), Just(-1), Just(-2), Just(-4095), Just(5), Just(i32::MAX), Just(-22)].prop_map(Act::InfoOfNonId),
    ]
}

pub fn strategy() -> impl Strategy<Value = Case> {
    prop_oneof![Just(1usize), Just(2), Just(4), Just(8), Just(16)].prop_flat_map(|t| vec(vec(act(), 0..40), t..=t)).prop_map(|threads| Case { threads })
}

#[derive(Clone, Debug, Default, Serialize, Deserialize)]
pub struct Report {
    pub problems: Vec<String>,
    pub failures: u64,
    pub consumed: u64,
    pub handoffs: u64,
    pub double_consumes: u64,
    #[serde(default)]
    pub racing_consumes: u64,
    #[serde(default)]
    pub late_fetches: u64,
    pub kinds: Vec<(String, u64)>,
    pub sample_descriptions: Vec<(String, u64, String)>,
    pub leftover: u64,
}

struct Model {
    /// ids handed out and not yet (being) consumed -> acceptable errnos
    live: HashMap<i32, &'static [i32]>,
    problems: Vec<String>,
    samples: Vec<(String, u64, String)>,
}

fn fail_call(kind: FailKind, rootfd: i32, closed_fd: i32) -> i32 {
    let p = |s: &str| CString::new(s).unwrap();
    unsafe {
        match kind {
            FailKind::Enoent => pathrs_inroot_resolve(rootfd, p("missing/x").as_ptr()),
            FailKind::Enotdir => pathrs_inroot_resolve(rootfd, p("file/x").as_ptr()),
            FailKind::Eloop => pathrs_inroot_resolve(rootfd, p("loop").as_ptr()),
            FailKind::EinvalNegFd => pathrs_inroot_resolve(-1, p("x").as_ptr()),
            FailKind::EinvalNullPath => pathrs_inroot_open(rootfd, std::ptr::null(), libc::O_RDONLY),
            FailKind::EinvalBadBase => pathrs_proc_open(0x1234_5678, p("status").as_ptr(), libc::O_RDONLY),
            FailKind::EinvalBadMode => pathrs_inroot_mkdir_all(rootfd, p("newdir").as_ptr(), 0o4755),
            FailKind::EinvalTrailingSlash => pathrs_inroot_mkdir(rootfd, p("dir/").as_ptr(), 0o755),
            FailKind::EnosysSock => pathrs_inroot_mknod(rootfd, p("sock").as_ptr(), libc::S_IFSOCK | 0o644, 0),
            FailKind::Eexist => pathrs_inroot_mkdir(rootfd, p("dir").as_ptr(), 0o755),
            FailKind::Eisdir => pathrs_inroot_unlink(rootfd, p("dir").as_ptr()),
            FailKind::Enotempty => pathrs_inroot_rmdir(rootfd, p("dir").as_ptr()),
            FailKind::ExdevProc => pathrs_proc_open(PATHRS_PROC_SELF, p("../..").as_ptr(), libc::O_RDONLY | libc::O_NOFOLLOW),
            FailKind::EbadfClosedFd => pathrs_inroot_resolve(closed_fd, p("x").as_ptr()),
        }
    }
}

fn consume(model: &Mutex<Model>, id: i32, who: usize, expect_null: bool) -> bool {
    // take it out of the model first: from now on the library may re-issue it
    let expected = if expect_null { None } else { model.lock().unwrap().live.remove(&id) };
    let r = take_error(id);
    let mut m = model.lock().unwrap();
    match (r, expect_null) {
        (None, true) => true,
        (Some((e, d)), true) => {
            m.problems.push(format!("thread {}: pathrs_errorinfo({}) returned an error (errno {}, \"{}\") although it had been consumed already", who, id, e, d.chars().take(80).collect::<String>()));
            false
        }
        (None, false) => {
            m.problems.push(format!("thread {}: pathrs_errorinfo({}) returned NULL for an id that was never consumed", who, id));
            false
        }
        (Some((e, d)), false) => {
            if let Some(exp) = expected {
                if !exp.contains(&(e as i32)) {
                    m.problems.push(format!("thread {}: error {} carries saved_errno {} but the failing call implies {:?} (\"{}\")", who, id, e, exp.iter().map(|x| errno_name(*x)).collect::<Vec<_>>(), d.chars().take(120).collect::<String>()));
                }
            } else {
                m.problems.push(format!("thread {}: id {} was not in the model", who, id));
            }
            if d.trim().is_empty() {
                m.problems.push(format!("thread {}: error {} has an empty description", who, id));
            }
            if m.samples.len() < 14 {
                let k = errno_name(e as i32);
                if !m.samples.iter().any(|s| s.0 == k) {
                    m.samples.push((k, e, d.chars().take(160).collect()));
                }
            }
            true
        }
    }
}

pub fn child(case: &Case) -> Report {
    let sb = Sandbox::create("c16");
    let root = sb.root();
    std::fs::write(root.join("file"), b"x").unwrap();
    mkdir_p(&root.join("dir/sub"));
    let _ = std::os::unix::fs::symlink("loop", root.join("loop"));
    let rootfd = {
        let c = CString::new(root.as_os_str().as_encoded_bytes()).unwrap();
        unsafe { pathrs_open_root(c.as_ptr()) }
    };
    assert!(rootfd >= 0, "pathrs_open_root failed");
    // a descriptor number that is certainly closed
    let closed_fd = 1900;
    let n = case.threads.len();
    let model = Arc::new(Mutex::new(Model { live: HashMap::new(), problems: vec![], samples: vec![] }));
    let quiesce = Arc::new(RwLock::new(()));
    let barrier = Arc::new(Barrier::new(n));
    let mut txs: Vec<Sender<i32>> = vec![];
    let mut rxs: Vec<Option<Receiver<i32>>> = vec![];
    for _ in 0..n {
        let (tx, rx) = channel();
        txs.push(tx);
        rxs.push(Some(rx));
    }
    let counters = Arc::new(Mutex::new((0u64, 0u64, 0u64, 0u64, HashMap::<String, u64>::new(), 0u64, 0u64)));
    let mut handles = vec![];
    for (ti, acts) in case.threads.iter().cloned().enumerate() {
        let model = model.clone();
        let quiesce = quiesce.clone();
        let barrier = barrier.clone();
        let txs = txs.clone();
        let rx = rxs[ti].take().unwrap();
        let counters = counters.clone();
        let root_c = CString::new(root.as_os_str().as_encoded_bytes()).unwrap();
        let stash_c = CString::new(sb.stash().as_os_str().as_encoded_bytes()).unwrap();
        let stash_s = sb.stash().to_string_lossy().to_string();
        handles.push(std::thread::spawn(move || {
            let mut own: Vec<i32> = vec![];
            let mut received: Vec<i32> = vec![];
            barrier.wait();
            for a in acts {
                while let Ok(id) = rx.try_recv() {
                    received.push(id);
                }
                match a {
                    Act::Fail(kind) => {
                        let _g = quiesce.read().unwrap();
                        let id = fail_call(kind, rootfd, closed_fd);
                        let mut m = model.lock().unwrap();
                        if id >= 0 {
                            m.problems.push(format!("thread {}: a call that must fail ({:?}) returned {}", ti, kind, id));
                            if id > 2 {
                                unsafe { libc::close(id) };
                            }
                            continue;
                        }
                        if id >= -MAX_ERRNO {
                            m.problems.push(format!("thread {}: {:?} returned {} which lies in the errno range", ti, kind, id));
                            continue;
                        }
                        if m.live.contains_key(&id) {
                            m.problems.push(format!("thread {}: {:?} returned id {} which is still unconsumed", ti, kind, id));
                            continue;
                        }
                        m.live.insert(id, kind.errnos());
                        drop(m);
                        own.push(id);
                        let mut c = counters.lock().unwrap();
                        c.0 += 1;
                        *c.4.entry(format!("{:?}", kind)).or_insert(0) += 1;
                    }
                    Act::ConsumeOwn => {
                        if !own.is_empty() {
                            let id = own.remove(0);
                            consume(&model, id, ti, false);
                            counters.lock().unwrap().1 += 1;
                        }
                    }
                    Act::HandOff(j) => {
                        if !own.is_empty() {
                            let id = own.remove(0);
                            let _ = txs[j as usize % txs.len()].send(id);
                            counters.lock().unwrap().2 += 1;
                        }
                    }
                    Act::ConsumeReceived => {
                        if !received.is_empty() {
                            let id = received.remove(0);
                            consume(&model, id, ti, false);
                            counters.lock().unwrap().1 += 1;
                        }
                    }
                    Act::ConsumeTwice => {
                        if !own.is_empty() {
                            let id = own.remove(0);
                            // nobody may obtain a new id between the two reads (it could be this very number)
                            let _g = quiesce.write().unwrap();
                            consume(&model, id, ti, false);
                            consume(&model, id, ti, true);
                            let mut c = counters.lock().unwrap();
                            c.1 += 1;
                            c.3 += 1;
                        }
                    }
                    Act::ConsumeRacing(k) => {
                        if !own.is_empty() {
                            let id = own.remove(0);
                            // nobody may obtain a new id meanwhile (it could be this very number)
                            let _g = quiesce.write().unwrap();
                            let expected = model.lock().unwrap().live.remove(&id);
                            let racers = 2 + k as usize;
                            let start = Barrier::new(racers);
                            let got: Vec<Option<(u64, String)>> = std::thread::scope(|sc| {
                                let hs: Vec<_> = (0..racers)
                                    .map(|_| {
                                        sc.spawn(|| {
                                            start.wait();
                                            take_error(id)
                                        })
                                    })
                                    .collect();
                                hs.into_iter().map(|h| h.join().unwrap_or(None)).collect()
                            });
                            let winners: Vec<&(u64, String)> = got.iter().flatten().collect();
                            let mut m = model.lock().unwrap();
                            if winners.len() != 1 {
                                m.problems.push(format!("thread {}: {} concurrent pathrs_errorinfo({}) calls: {} of them obtained the error (exactly one must)", ti, racers, id, winners.len()));
                            }
                            if let (Some(exp), Some(w)) = (expected, winners.first()) {
                                if !exp.contains(&(w.0 as i32)) {
                                    m.problems.push(format!("thread {}: error {} carries saved_errno {} but the failing call implies {:?}", ti, id, w.0, exp.iter().map(|x| errno_name(*x)).collect::<Vec<_>>()));
                                }
                            }
                            drop(m);
                            let mut c = counters.lock().unwrap();
                            c.1 += 1;
                            c.5 += 1;
                        }
                    }
                    Act::FailCloseReuse => {
                        // the descriptor table is shared: nobody else may open or close anything meanwhile
                        let _g = quiesce.write().unwrap();
                        let own = unsafe { pathrs_open_root(root_c.as_ptr()) };
                        if own >= 0 {
                            let id = unsafe { pathrs_inroot_resolve(own, b"missing/x\0".as_ptr() as *const libc::c_char) };
                            unsafe { libc::close(own) };
                            let decoy = unsafe { libc::open(stash_c.as_ptr(), libc::O_PATH | libc::O_DIRECTORY | libc::O_CLOEXEC) };
                            let placed = if decoy >= 0 && decoy != own { unsafe { libc::dup3(decoy, own, libc::O_CLOEXEC) } } else { decoy };
                            if id < -MAX_ERRNO {
                                match take_error(id) {
                                    Some((e, d)) => {
                                        let mut m = model.lock().unwrap();
                                        if e as i32 != libc::ENOENT {
                                            m.problems.push(format!("thread {}: error {} carries saved_errno {} but the failing call implies ENOENT", ti, id, e));
                                        }
                                        if d.contains(stash_s.as_str()) {
                                            m.problems.push(format!("thread {}: the description of error {} names a directory that was put at the failing call's descriptor number only afterwards: \"{}\"", ti, id, d.chars().take(200).collect::<String>()));
                                        }
                                        drop(m);
                                        let mut c = counters.lock().unwrap();
                                        c.0 += 1;
                                        c.1 += 1;
                                        c.6 += 1;
                                    }
                                    None => model.lock().unwrap().problems.push(format!("thread {}: pathrs_errorinfo({}) returned NULL for an id that was never consumed", ti, id)),
                                }
                            } else {
                                model.lock().unwrap().problems.push(format!("thread {}: a call that must fail returned {}", ti, id));
                            }
                            if placed >= 0 {
                                unsafe { libc::close(placed) };
                            }
                            if decoy >= 0 && decoy != placed {
                                unsafe { libc::close(decoy) };
                            }
                        }
                    }
                    Act::FreeNull => unsafe { pathrs_errorinfo_free(std::ptr::null_mut()) },
                    Act::InfoOfNonId(v) => {
                        let _g = quiesce.read().unwrap();
                        if let Some((e, d)) = take_error(v) {
                            model.lock().unwrap().problems.push(format!("thread {}: pathrs_errorinfo({}) of a value that is no error id returned errno {} \"{}\"", ti, v, e, d.chars().take(60).collect::<String>()));
                        }
                    }
                }
            }
            (own, received, rx)
        }));
    }
    drop(txs);
    let mut leftovers: Vec<i32> = vec![];
    let mut receivers = vec![];
    for h in handles {
        match h.join() {
            Ok((own, received, rx)) => {
                leftovers.extend(own);
                leftovers.extend(received);
                receivers.push(rx);
            }
            Err(e) => model.lock().unwrap().problems.push(format!("a thread panicked: {}", panic_msg(&e))),
        }
    }
    // only now has every sender finished
    for rx in receivers {
        while let Ok(id) = rx.try_recv() {
            leftovers.push(id);
        }
    }
    // everything still alive must be retrievable exactly once, from this (another) thread
    let leftover = leftovers.len() as u64;
    for id in leftovers {
        consume(&model, id, 999, false);
        consume(&model, id, 999, true);
    }
    unsafe { libc::close(rootfd) };
    sb.destroy();
    let m = model.lock().unwrap();
    let c = counters.lock().unwrap();
    let mut problems = m.problems.clone();
    if !m.live.is_empty() {
        problems.push(format!("{} ids are unaccounted for in the model", m.live.len()));
    }
    Report { problems, failures: c.0, consumed: c.1 + 0, handoffs: c.2, double_consumes: c.3, racing_consumes: c.5, late_fetches: c.6, kinds: c.4.iter().map(|(k, v)| (k.clone(), *v)).collect(), sample_descriptions: m.samples.clone(), leftover }
}

/// Hold `n` unconsumed ids at once: all distinct, all below -4095, each retrievable once.
pub fn collision_child(n: usize) -> Report {
    let mut rep = Report::default();
    let mut ids: Vec<i32> = Vec::with_capacity(n);
    let x = CString::new("x").unwrap();
    for _ in 0..n {
        let id = unsafe { pathrs_inroot_resolve(-1, x.as_ptr()) };
        if id >= -MAX_ERRNO {
            rep.problems.push(format!("id {} is not below -4095", id));
        }
        ids.push(id);
    }
    let mut sorted = ids.clone();
    sorted.sort();
    let before = sorted.len();
    sorted.dedup();
    if sorted.len() != before {
        rep.problems.push(format!("{} of {} simultaneously live ids are duplicates", before - sorted.len(), before));
    }
    let mut missing = 0;
    for id in &sorted {
        if take_error(*id).is_none() {
            missing += 1;
        }
    }
    if missing > 0 {
        rep.problems.push(format!("{} live ids could not be retrieved", missing));
    }
    let mut again = 0;
    for id in sorted.iter().take(1000) {
        if take_error(*id).is_some() {
            again += 1;
        }
    }
    if again > 0 {
        rep.problems.push(format!("{} ids could be retrieved twice", again));
    }
    rep.failures = n as u64;
    rep.consumed = n as u64;
    rep
}

pub fn judge(case: &Case, rep: &Report, stats: &mut Stats) -> Result<(), Fail> {
    stats.eval();
    stats.count("failing_calls", rep.failures);
    stats.count("ids_consumed", rep.consumed);
    stats.count("cross_thread_handoffs", rep.handoffs);
    stats.count("double_consumes", rep.double_consumes);
    stats.count("racing_consumes", rep.racing_consumes);
    stats.count("errors_fetched_after_descriptor_reuse", rep.late_fetches);
    stats.count("consumed_at_the_end_from_another_thread", rep.leftover);
    stats.class(&format!("threads:{}", case.threads.len()));
    for (k, v) in &rep.kinds {
        *stats.classes.entry(format!("kind:{}", k)).or_insert(0) += v;
    }
    if rep.handoffs > 0 || rep.double_consumes > 0 || rep.racing_consumes > 0 {
        stats.nontrivial_key(&format!("{:?}", case));
        stats.sample(|| json!({"threads": case.threads.len(), "history_thread0": case.threads[0].iter().take(12).map(|a| format!("{:?}", a)).collect::<Vec<_>>(), "failing_calls": rep.failures, "handoffs": rep.handoffs, "double_consumes": rep.double_consumes, "descriptions": rep.sample_descriptions.iter().take(4).collect::<Vec<_>>()}));
    }
    for (k, e, d) in &rep.sample_descriptions {
        stats.class_sample(&format!("errno:{}", k), || json!({"saved_errno": e, "description": d}));
    }
    if let Some(p) = rep.problems.first() {
        let sig = if p.contains("errno range") {
            "id-in-errno-range"
        } else if p.contains("still unconsumed") {
            "duplicate-live-id"
        } else if p.contains("had been consumed already") {
            "retrievable-twice"
        } else if p.contains("returned NULL for an id") {
            "lost-error"
        } else if p.contains("saved_errno") {
            "wrong-errno"
        } else if p.contains("empty description") {
            "empty-description"
        } else if p.contains("must fail") {
            "call-did-not-fail"
        } else if p.contains("no error id") {
            "info-for-non-id"
        } else {
            "other"
        };
        return Err(Fail::Violation(Violation { check: "error-ids".into(), signature: sig.into(), message: rep.problems.iter().take(8).cloned().collect::<Vec<_>>().join("\n"), case: serde_json::to_value(case).unwrap() }));
    }
    Ok(())
}

pub fn check(case: &Case, stats: &mut Stats) -> Result<(), Fail> {
    match run_in_child(120.0, || child(case)) {
        ChildOut::Ok(rep) => judge(case, &rep, stats),
        ChildOut::Crashed { sig } => Err(Fail::Violation(Violation { check: "error-ids".into(), signature: format!("crash:sig{}", sig), message: format!("child died with signal {}", sig), case: serde_json::to_value(case).unwrap() })),
        ChildOut::Exit { code, stderr_hint } => Err(Fail::Harness(format!("child exit {}: {}", code, stderr_hint))),
        ChildOut::Timeout => Err(Fail::Harness("child timed out".into())),
    }
}

fn run_lane(ctx: &Ctx, lr: &mut LaneResult) {
    search_opts(ctx, lr, "error-ids", ctx.tier.pick(16000, 160000), strategy(), &check, 60);
    if lr.violations.is_empty() && ctx.lane == 0 {
        // many ids alive at once
        let n = ctx.tier.pick(60_000usize, 300_000usize);
        match run_in_child(600.0, || collision_child(n)) {
            ChildOut::Ok(rep) => {
                lr.stats.count("simultaneously_live_ids", n as u64);
                if let Some(p) = rep.problems.first() {
                    let v = Violation { check: "collision".into(), signature: "many-live-ids".into(), message: rep.problems.join("\n"), case: json!({"live_ids": n}) };
                    let _ = p;
                    let path = write_replay(&ctx.id, &v);
                    lr.violations.push((v, path));
                }
            }
            ChildOut::Crashed { sig } => lr.harness_errors.push(format!("collision child died with signal {}", sig)),
            ChildOut::Exit { code, stderr_hint } => lr.harness_errors.push(format!("collision child exit {}: {}", code, stderr_hint)),
            ChildOut::Timeout => lr.harness_errors.push("collision child timed out".into()),
        }
    }
}

fn replay(_ctx: &Ctx, check_name: &str, case: &Value) -> Result<(), Fail> {
    if check_name == "collision" {
        let n = case["live_ids"].as_u64().unwrap_or(60_000) as usize;
        return match run_in_child(600.0, || collision_child(n)) {
            ChildOut::Ok(rep) if rep.problems.is_empty() => Ok(()),
            ChildOut::Ok(rep) => Err(Fail::Violation(Violation { check: "collision".into(), signature: "many-live-ids".into(), message: rep.problems.join("\n"), case: case.clone() })),
            _ => Err(Fail::Harness("collision child failed".into())),
        };
    }
    let case: Case = serde_json::from_value(case.clone()).map_err(|e| Fail::Harness(format!("bad case: {}", e)))?;
    let mut s = Stats::default();
    check(&case, &mut s)
}

pub const PROP: Prop = Prop {
    id: "C16",
    level: "exploration",
    rule: "T in {1,2,4,8,16} free-running threads (released together from a barrier) x per-thread history of 0-39 actions {failing C call of 14 kinds (ENOENT, ENOTDIR, ELOOP, EINVAL through negative fd / NULL path / unknown procfs base / setuid mode / trailing slash, ENOSYS for S_IFSOCK, EEXIST, EISDIR, ENOTEMPTY, EXDEV from leaving a procfs base, EBADF), consume own oldest id, hand an id to another thread, consume a received id, consume twice, 2-4 threads released together asking for the same unconsumed id (exactly one may obtain it), a failure on a root of one's own that is closed and whose descriptor number is given to another directory before the error is fetched (the description must not name that directory), pathrs_errorinfo_free(NULL), pathrs_errorinfo of non-ids (0, -1, -4095, 5 …)}. A model of the live ids is kept under the harness's own lock, updated so that it is always a subset of what the library must still hold (an id leaves the model before it is read; double reads exclude concurrent failures). Oracle, valid under every schedule: each id < -4095; never equal to an id the model still holds; pathrs_errorinfo from whichever thread returns non-NULL exactly once with the errno the failing call implies and a non-empty description, NULL the second time and for non-ids; ids left at the end are read from yet another thread. Plus 60 000 (thorough: 300 000) ids held unconsumed at once: pairwise distinct, all retrievable once. non-trivial = histories with a cross-thread hand-off or a double read",
    assumptions: &["thread interleavings are whatever the scheduler produces (the table's mutex is a userspace lock the gate cannot own); the oracle does not depend on the schedule", "an id range that is wrong only on a 2^-19 slice of draws is beyond sampling"],
    lanes: |_| 16,
    run_lane,
    replay,
    extra: None,
    exhaustive: false,
};
