//! C17 — the C boundary validates arguments and respects caller buffers.

use crate::capi::*;
use crate::driver::*;
use crate::exec::*;
use crate::sandbox::*;
use crate::util::*;
use proptest::prelude::*;
use serde::{Deserialize, Serialize};
use serde_json::{json, Value};
use std::ffi::CString;

#[derive(Clone, Copy, Debug, PartialEq, Eq, Hash, Serialize, Deserialize)]
pub enum FdClass {
    Valid,
    MinusOne,
    MinusEbadf,
    IntMin,
    /// AT_FDCWD: negative, must be refused like any other negative value
    AtFdcwd,
    Closed,
}

#[derive(Clone, Copy, Debug, PartialEq, Eq, Hash, Serialize, Deserialize)]
pub enum PathClass {
    Valid,
    Null,
    Empty,
}

#[derive(Clone, Copy, Debug, PartialEq, Eq, Hash, Serialize, Deserialize)]
pub enum Func {
    OpenRoot,
    Reopen,
    Resolve,
    ResolveNofollow,
    Open,
    Readlink,
    Rename,
    Rmdir,
    Unlink,
    RemoveAll,
    Creat,
    Mkdir,
    MkdirAll,
    Mknod,
    Symlink,
    Hardlink,
    ProcOpen,
    ProcReadlink,
}

pub const FUNCS: [Func; 18] = [
    Func::OpenRoot,
    Func::Reopen,
    Func::Resolve,
    Func::ResolveNofollow,
    Func::Open,
    Func::Readlink,
    Func::Rename,
    Func::Rmdir,
    Func::Unlink,
    Func::RemoveAll,
    Func::Creat,
    Func::Mkdir,
    Func::MkdirAll,
    Func::Mknod,
    Func::Symlink,
    Func::Hardlink,
    Func::ProcOpen,
    Func::ProcReadlink,
];

#[derive(Clone, Debug, Serialize, Deserialize)]
pub struct ArgCase {
    pub func: Func,
    pub fd: FdClass,
    pub path: PathClass,
    pub path2: PathClass,
    /// procfs base value (None: valid PATHRS_PROC_SELF)
    pub base: Option<u64>,
    /// mode argument (None: a valid one)
    pub mode: Option<u32>,
}

#[derive(Clone, Debug, Serialize, Deserialize)]
pub struct BufCase {
    pub proc_link: bool,
    pub len: usize,
    /// None: NULL buffer
    pub size: Option<usize>,
    /// size passed with a NULL buffer
    pub null_size: usize,
}

#[derive(Clone, Debug, Serialize, Deserialize)]
pub enum Case {
    Arg(ArgCase),
    Buf(BufCase),
}

fn takes_fd(f: Func) -> bool {
    !matches!(f, Func::OpenRoot | Func::ProcOpen | Func::ProcReadlink)
}
fn takes_path2(f: Func) -> bool {
    matches!(f, Func::Rename | Func::Symlink | Func::Hardlink)
}
fn takes_path(f: Func) -> bool {
    f != Func::Reopen
}
fn takes_base(f: Func) -> bool {
    matches!(f, Func::ProcOpen | Func::ProcReadlink)
}
fn takes_mode(f: Func) -> bool {
    matches!(f, Func::Creat | Func::Mkdir | Func::MkdirAll | Func::Mknod)
}

/// Every function x every single invalid argument class (others valid).
pub fn all_arg_cases() -> Vec<ArgCase> {
    let mut v = vec![];
    for &func in FUNCS.iter() {
        let valid = ArgCase { func, fd: FdClass::Valid, path: PathClass::Valid, path2: PathClass::Valid, base: None, mode: None };
        v.push(valid.clone());
        if takes_fd(func) {
            for fd in [FdClass::MinusOne, FdClass::MinusEbadf, FdClass::IntMin, FdClass::AtFdcwd, FdClass::Closed] {
                v.push(ArgCase { fd, ..valid.clone() });
            }
        }
        if takes_path(func) {
            for p in [PathClass::Null, PathClass::Empty] {
                v.push(ArgCase { path: p, ..valid.clone() });
            }
        }
        if takes_path2(func) {
            for p in [PathClass::Null, PathClass::Empty] {
                v.push(ArgCase { path2: p, ..valid.clone() });
            }
        }
        if takes_base(func) {
            for b in [0u64, 1, u64::MAX, PATHRS_PROC_SELF + 1, PATHRS_PROC_SELF - 1, PATHRS_PROC_ROOT ^ 1, 0x5001_FFFF_0000_0000, PATHRS_PROC_THREAD_SELF << 32, PATHRS_PROC_SELF | 1 << 32, PATHRS_PROC_ROOT | 1 << 63, PATHRS_PROC_THREAD_SELF | 0xdead << 32, PATHRS_PROC_SELF | 0xffff_ffff << 32, PATHRS_PROC_ROOT | 1 << 31 << 1] {
                v.push(ArgCase { base: Some(b), ..valid.clone() });
            }
        }
        if takes_mode(func) {
            let modes: Vec<u32> = match func {
                Func::MkdirAll => vec![0o4755, 0o2755, 0o6777, libc::S_IFDIR | 0o755, libc::S_IFREG | 0o644, 0o10_0000 | 0o755, 0xFFFF_FFFF],
                Func::Mknod => vec![libc::S_IFSOCK | 0o644, libc::S_IFLNK | 0o644, 0o644 /* no type */, 0o17_0000 | 0o644, 0xFFFF_FFFF],
                _ => vec![],
            };
            for m in modes {
                v.push(ArgCase { mode: Some(m), ..valid.clone() });
            }
        }
    }
    v
}

pub fn all_buf_cases() -> Vec<BufCase> {
    let mut v = vec![];
    for len in 1..=64usize {
        for size in 0..=(len + 3) {
            v.push(BufCase { proc_link: false, len, size: Some(size), null_size: 0 });
        }
        v.push(BufCase { proc_link: false, len, size: None, null_size: 0 });
        v.push(BufCase { proc_link: false, len, size: None, null_size: len + 1 });
    }
    // procfs links: the body is an absolute path, so lengths start above the sandbox prefix
    for len in [40usize, 41, 47, 48, 63, 64, 65, 100, 255, 256, 1000, 4000] {
        for size in [0usize, 1, len - 1, len, len + 1, len + 3] {
            v.push(BufCase { proc_link: true, len, size: Some(size), null_size: 0 });
        }
        v.push(BufCase { proc_link: true, len, size: None, null_size: 16 });
    }
    v
}

pub fn sampled_buf() -> impl Strategy<Value = BufCase> {
    (any::<bool>(), 1usize..4096, prop_oneof![6 => (0usize..4200).prop_map(Some), 1 => Just(None)], 0usize..5000).prop_map(|(proc_link, len, size, null_size)| {
        let len = if proc_link { len.clamp(40, 4000) } else { len.min(4095) };
        BufCase { proc_link, len, size, null_size }
    })
}

#[derive(Clone, Debug, Default, Serialize, Deserialize)]
pub struct Report {
    pub ret: i64,
    pub errno: Option<u64>,
    pub description: Option<String>,
    pub expected: String,
    pub problems: Vec<String>,
    pub tree_changed: Vec<String>,
    pub fds_changed: Vec<String>,
    pub note: String,
}

fn fd_listing() -> Vec<(i32, Ident)> {
    let mut v = vec![];
    for fd in 0..400 {
        if fcntl_getfd(fd) >= 0 {
            if let Ok(st) = fstat(fd) {
                v.push((fd, st.id));
            }
        }
    }
    v
}

struct Fixture {
    sb: Sandbox,
    rootfd: i32,
}

fn fixture(tag: &str) -> Fixture {
    let sb = Sandbox::create(tag);
    let root = sb.root();
    mkdir_p(&root.join("dir"));
    mkdir_p(&root.join("emptydir"));
    std::fs::write(root.join("file"), b"content").unwrap();
    std::fs::write(root.join("dir/inner"), b"inner").unwrap();
    let _ = std::os::unix::fs::symlink("file", root.join("link"));
    let c = CString::new(root.as_os_str().as_encoded_bytes()).unwrap();
    let rootfd = unsafe { pathrs_open_root(c.as_ptr()) };
    assert!(rootfd >= 0);
    Fixture { sb, rootfd }
}

pub fn arg_child(case: &ArgCase) -> Report {
    let fx = fixture("c17");
    let root = fx.sb.root();
    let mut rep = Report::default();
    // a handle for pathrs_reopen
    let hfd = unsafe { pathrs_inroot_resolve(fx.rootfd, CString::new("file").unwrap().as_ptr()) };
    let fd_valid = if case.func == Func::Reopen { hfd } else { fx.rootfd };
    let fd = match case.fd {
        FdClass::Valid => fd_valid,
        FdClass::MinusOne => -1,
        FdClass::MinusEbadf => -libc::EBADF,
        FdClass::IntMin => i32::MIN,
        FdClass::AtFdcwd => libc::AT_FDCWD,
        FdClass::Closed => 350,
    };
    // valid paths per function
    let (p1, p2): (&str, &str) = match case.func {
        Func::OpenRoot => (root.to_str().unwrap(), ""),
        Func::Resolve | Func::ResolveNofollow | Func::Open => ("file", ""),
        Func::Readlink => ("link", ""),
        Func::Rename => ("file", "renamed"),
        Func::Rmdir => ("emptydir", ""),
        Func::Unlink => ("file", ""),
        Func::RemoveAll => ("dir", ""),
        Func::Creat => ("created", ""),
        Func::Mkdir => ("newdir", ""),
        Func::MkdirAll => ("x/y/z", ""),
        Func::Mknod => ("node", ""),
        Func::Symlink => ("newlink", "target"),
        Func::Hardlink => ("newhard", "file"),
        Func::ProcOpen => ("status", ""),
        Func::ProcReadlink => ("cwd", ""),
        Func::Reopen => ("", ""),
    };
    let c1 = CString::new(p1).unwrap();
    let c2 = CString::new(p2).unwrap();
    let empty = CString::new("").unwrap();
    let path = |cl: PathClass, valid: &CString| -> *const libc::c_char {
        match cl {
            PathClass::Valid => valid.as_ptr(),
            PathClass::Null => std::ptr::null(),
            PathClass::Empty => empty.as_ptr(),
        }
    };
    let a1 = path(case.path, &c1);
    let a2 = path(case.path2, &c2);
    let base = case.base.unwrap_or(PATHRS_PROC_SELF);
    let before_tree = Snapshot::take_path(&root);
    let before_fds = fd_listing();
    let mut buf = vec![0u8; 256];
    let (ret, returns_fd) = unsafe {
        match case.func {
            Func::OpenRoot => (pathrs_open_root(a1), true),
            Func::Reopen => (pathrs_reopen(fd, libc::O_RDONLY), true),
            Func::Resolve => (pathrs_inroot_resolve(fd, a1), true),
            Func::ResolveNofollow => (pathrs_inroot_resolve_nofollow(fd, a1), true),
            Func::Open => (pathrs_inroot_open(fd, a1, libc::O_RDONLY), true),
            Func::Readlink => (pathrs_inroot_readlink(fd, a1, buf.as_mut_ptr() as *mut libc::c_char, buf.len()), false),
            Func::Rename => (pathrs_inroot_rename(fd, a1, a2, 0), false),
            Func::Rmdir => (pathrs_inroot_rmdir(fd, a1), false),
            Func::Unlink => (pathrs_inroot_unlink(fd, a1), false),
            Func::RemoveAll => (pathrs_inroot_remove_all(fd, a1), false),
            Func::Creat => (pathrs_inroot_creat(fd, a1, libc::O_RDWR, case.mode.unwrap_or(0o644)), true),
            Func::Mkdir => (pathrs_inroot_mkdir(fd, a1, case.mode.unwrap_or(0o755)), false),
            Func::MkdirAll => (pathrs_inroot_mkdir_all(fd, a1, case.mode.unwrap_or(0o755)), true),
            Func::Mknod => (pathrs_inroot_mknod(fd, a1, case.mode.unwrap_or(libc::S_IFIFO | 0o644), 0), false),
            Func::Symlink => (pathrs_inroot_symlink(fd, a1, a2), false),
            Func::Hardlink => (pathrs_inroot_hardlink(fd, a1, a2), false),
            Func::ProcOpen => (pathrs_proc_open(base, a1, libc::O_RDONLY), true),
            Func::ProcReadlink => (pathrs_proc_readlink(base, a1, buf.as_mut_ptr() as *mut libc::c_char, buf.len()), false),
        }
    };
    rep.ret = ret as i64;
    let mut returned_fd = None;
    if ret < 0 {
        if let Some((e, d)) = take_error(ret) {
            rep.errno = Some(e);
            rep.description = Some(d.chars().take(200).collect());
        }
    } else if returns_fd {
        returned_fd = Some(ret);
    }
    let after_fds = fd_listing();
    // descriptors: only the returned one may be new; everything else is as before
    for (f, id) in &before_fds {
        match after_fds.iter().find(|(g, _)| g == f) {
            None => rep.fds_changed.push(format!("descriptor {} was closed", f)),
            Some((_, id2)) if id2 != id => rep.fds_changed.push(format!("descriptor {} now refers to another object", f)),
            _ => {}
        }
    }
    for (f, _) in &after_fds {
        if !before_fds.iter().any(|(g, _)| g == f) && Some(*f) != returned_fd {
            // the library's own process-lifetime procfs root (created at first use), close-on-exec
            let global = fstatfs_type(*f) == Ok(PROC_SUPER_MAGIC) && fstat(*f).map(|s| s.id.ino == 1).unwrap_or(false) && fcntl_getfd(*f) & libc::FD_CLOEXEC != 0;
            if !global {
                rep.fds_changed.push(format!("descriptor {} is new and was not returned", f));
            }
        }
    }
    if let Some(f) = returned_fd {
        unsafe { libc::close(f) };
    }
    // which arguments are invalid, and what that must lead to
    let invalid_fd = takes_fd(case.func) && case.fd != FdClass::Valid;
    let invalid_path = (takes_path(case.func) && case.path == PathClass::Null) || (takes_path2(case.func) && case.path2 == PathClass::Null);
    let invalid_base = takes_base(case.func) && case.base.is_some();
    let invalid_mode = match (case.func, case.mode) {
        // mkdir_all refuses everything outside 0o1777
        (Func::MkdirAll, Some(m)) => m & !0o1777 != 0,
        // mknod decodes S_IFMT; anything that is not a known type is invalid (S_IFSOCK: not implemented)
        (Func::Mknod, Some(m)) => !matches!(m & libc::S_IFMT, libc::S_IFREG | libc::S_IFDIR | libc::S_IFBLK | libc::S_IFCHR | libc::S_IFIFO | libc::S_IFSOCK),
        _ => false,
    };
    let sock = case.func == Func::Mknod && case.mode.map(|m| m & libc::S_IFMT == libc::S_IFSOCK).unwrap_or(false);
    let closed = takes_fd(case.func) && case.fd == FdClass::Closed;
    let negative = invalid_fd && !closed;
    let must_fail = invalid_fd || invalid_path || invalid_base || invalid_mode || sock;
    let after_tree = Snapshot::take_path(&root);
    if must_fail {
        for ch in changes(&before_tree, &after_tree) {
            rep.tree_changed.push(format!("{:?}", ch));
        }
        // with several invalid arguments any of their errors may come first
        let mut want: Vec<u64> = vec![];
        if negative || invalid_path || invalid_base || invalid_mode {
            want.push(libc::EINVAL as u64);
        }
        if closed {
            want.push(libc::EBADF as u64);
            if case.path == PathClass::Empty || case.path2 == PathClass::Empty {
                // the kernel looks at the empty path before it looks at the descriptor
                want.push(libc::ENOENT as u64);
            }
        }
        if sock {
            want.push(libc::ENOSYS as u64);
        }
        rep.expected = format!("error id with errno in {:?}", want.iter().map(|e| errno_name(*e as i32)).collect::<Vec<_>>());
        if ret >= 0 {
            rep.problems.push(format!("the call returned {} although an argument is invalid", ret));
        } else if ret >= -MAX_ERRNO {
            rep.problems.push(format!("the call returned {}, which is in the errno range and not an error id", ret));
        } else {
            match rep.errno {
                None => rep.problems.push("pathrs_errorinfo() has nothing for the returned id".into()),
                Some(e) if !want.contains(&e) => rep.problems.push(format!("saved_errno is {} ({})", e, errno_name(e as i32))),
                _ => {}
            }
        }
    } else {
        rep.expected = "a valid call (empty paths are ordinary paths)".into();
        // valid calls must not produce ids in the errno range either
        if ret < 0 && ret >= -MAX_ERRNO {
            rep.problems.push(format!("the call returned {}, which is in the errno range", ret));
        }
    }
    if hfd >= 0 {
        unsafe { libc::close(hfd) };
    }
    unsafe { libc::close(fx.rootfd) };
    fx.sb.destroy();
    rep
}

/// Build a file whose absolute path has exactly `len` bytes (below `base`).
fn path_of_len(base: &std::path::Path, len: usize) -> Option<std::path::PathBuf> {
    let mut p = base.to_path_buf();
    let mut cur = p.as_os_str().len();
    if len < cur + 2 {
        return None;
    }
    // components of at most 200 bytes
    while len - cur > 202 {
        let comp = "d".repeat(200);
        p.push(&comp);
        cur += 201;
        // create step by step (the full path may exceed PATH_MAX for mkdir -p on one go)
    }
    let last = len - cur - 1;
    let dirs = p.clone();
    // create directories with chdir-free fd walk
    let mut fd = openat_raw(libc::AT_FDCWD, base.as_os_str().as_encoded_bytes(), libc::O_RDONLY | libc::O_DIRECTORY, 0).ok()?;
    for c in dirs.strip_prefix(base).ok()?.components() {
        let name = CString::new(c.as_os_str().as_encoded_bytes()).ok()?;
        unsafe { libc::mkdirat(fd, name.as_ptr(), 0o755) };
        let n = openat_raw(fd, c.as_os_str().as_encoded_bytes(), libc::O_RDONLY | libc::O_DIRECTORY, 0).ok()?;
        close(fd);
        fd = n;
    }
    let fname = "f".repeat(last);
    let cn = CString::new(fname.clone()).ok()?;
    let f = unsafe { libc::openat(fd, cn.as_ptr(), libc::O_CREAT | libc::O_WRONLY | libc::O_CLOEXEC, 0o644) };
    close(fd);
    if f < 0 {
        return None;
    }
    close(f);
    p.push(fname);
    Some(p)
}

pub fn buf_child(case: &BufCase) -> Report {
    let fx = fixture("c17b");
    let root = fx.sb.root();
    let mut rep = Report::default();
    // the link and its body
    let body: Vec<u8>;
    let mut keep_fd = -1;
    let (base_arg, path_arg): (Option<u64>, CString);
    if case.proc_link {
        // /proc/self/fd/<n> whose target path has the wanted length
        let target = match path_of_len(&root, case.len) {
            Some(t) => t,
            None => {
                rep.note = "length not reachable below the sandbox prefix".into();
                unsafe { libc::close(fx.rootfd) };
                fx.sb.destroy();
                return rep;
            }
        };
        // open through a descriptor walk (the path may be longer than PATH_MAX allows in one go)
        let mut fd = openat_raw(libc::AT_FDCWD, root.as_os_str().as_encoded_bytes(), libc::O_RDONLY | libc::O_DIRECTORY, 0).unwrap();
        let rel = target.strip_prefix(&root).unwrap().to_path_buf();
        let comps: Vec<_> = rel.components().collect();
        for (i, c) in comps.iter().enumerate() {
            let fl = if i + 1 == comps.len() { libc::O_RDONLY } else { libc::O_RDONLY | libc::O_DIRECTORY };
            let n = openat_raw(fd, c.as_os_str().as_encoded_bytes(), fl, 0).unwrap();
            close(fd);
            fd = n;
        }
        keep_fd = fd;
        body = target.as_os_str().as_encoded_bytes().to_vec();
        base_arg = Some(PATHRS_PROC_SELF);
        path_arg = CString::new(format!("fd/{}", fd)).unwrap();
    } else {
        let b: Vec<u8> = (0..case.len).map(|i| b'A' + (i % 23) as u8).collect();
        let bc = CString::new(b.clone()).unwrap();
        let lp = CString::new(root.join("L").as_os_str().as_encoded_bytes()).unwrap();
        let r = unsafe { libc::symlink(bc.as_ptr(), lp.as_ptr()) };
        if r != 0 {
            rep.note = format!("symlink of {} bytes: {}", case.len, errno_name(errno()));
            unsafe { libc::close(fx.rootfd) };
            fx.sb.destroy();
            return rep;
        }
        body = b;
        base_arg = None;
        path_arg = CString::new("L").unwrap();
    }
    // caller buffer: flush against an inaccessible page, canaries in front
    let page = 4096usize;
    let region_len = 3 * page;
    let region = unsafe { libc::mmap(std::ptr::null_mut(), region_len, libc::PROT_READ | libc::PROT_WRITE, libc::MAP_PRIVATE | libc::MAP_ANONYMOUS, -1, 0) } as *mut u8;
    assert!(!region.is_null() && region as isize != -1);
    unsafe {
        std::ptr::write_bytes(region, 0xA5, 2 * page);
        libc::mprotect(region.add(2 * page) as *mut libc::c_void, page, libc::PROT_NONE);
    }
    let size = case.size.unwrap_or(case.null_size);
    let size_in_region = size.min(2 * page - 64);
    let buf = unsafe { region.add(2 * page - size_in_region) };
    let ptr: *mut libc::c_char = if case.size.is_none() { std::ptr::null_mut() } else { buf as *mut libc::c_char };
    let ret = unsafe {
        match base_arg {
            Some(b) => pathrs_proc_readlink(b, path_arg.as_ptr(), ptr, size_in_region.max(if case.size.is_none() { case.null_size } else { 0 })),
            None => pathrs_inroot_readlink(fx.rootfd, path_arg.as_ptr(), ptr, if case.size.is_none() { case.null_size } else { size_in_region }),
        }
    };
    rep.ret = ret as i64;
    rep.expected = format!("{} (full length), first min(len, size) bytes copied, nothing else written", body.len());
    if ret < 0 {
        if let Some((e, d)) = take_error(ret) {
            rep.errno = Some(e);
            rep.description = Some(d.chars().take(200).collect());
        }
        rep.problems.push(format!("readlink failed ({}): {:?}", ret, rep.description));
    } else {
        if ret as usize != body.len() {
            rep.problems.push(format!("returned {} but the link body has {} bytes", ret, body.len()));
        }
        let all = unsafe { std::slice::from_raw_parts(region, 2 * page) };
        let off = 2 * page - size_in_region;
        let copied = if case.size.is_none() { 0 } else { body.len().min(size_in_region) };
        if all[off..off + copied] != body[..copied] {
            rep.problems.push("the copied bytes differ from the link body".into());
        }
        // everything else in the two pages still carries the canary
        for (i, &b) in all.iter().enumerate() {
            let inside = i >= off && i < off + copied;
            if !inside && b != 0xA5 {
                rep.problems.push(format!("byte at buffer offset {} (buffer size {}, body {}) was overwritten with 0x{:02x}", i as isize - off as isize, size_in_region, body.len(), b));
                break;
            }
        }
    }
    unsafe { libc::munmap(region as *mut libc::c_void, region_len) };
    if keep_fd >= 0 {
        close(keep_fd);
    }
    unsafe { libc::close(fx.rootfd) };
    fx.sb.destroy();
    rep
}

pub fn judge(case: &Case, rep: &Report, stats: &mut Stats) -> Result<(), Fail> {
    if !rep.note.is_empty() {
        stats.count("skipped", 1);
        return Ok(());
    }
    stats.eval();
    match case {
        Case::Arg(a) => {
            stats.class(&format!("func:{:?}", a.func));
            let invalid = a.fd != FdClass::Valid || a.path != PathClass::Valid || a.path2 != PathClass::Valid || a.base.is_some() || a.mode.is_some();
            if invalid {
                stats.class(&format!("invalid:{}", if a.fd != FdClass::Valid { format!("fd:{:?}", a.fd) } else if a.path != PathClass::Valid { format!("path:{:?}", a.path) } else if a.path2 != PathClass::Valid { format!("path2:{:?}", a.path2) } else if a.base.is_some() { "base".into() } else { "mode".into() }));
                stats.nontrivial_key(&format!("{:?}", a));
                stats.sample(|| json!({"call": format!("{:?}", a), "returned": rep.ret, "saved_errno": rep.errno.map(|e| errno_name(e as i32)), "description": rep.description}));
                stats.class_sample(&format!("{:?}:{}", a.func, rep.errno.map(|e| errno_name(e as i32)).unwrap_or_else(|| "ok".into())), || json!({"call": format!("{:?}", a), "returned": rep.ret, "description": rep.description}));
            }
        }
        Case::Buf(b) => {
            stats.class(if b.proc_link { "readlink:proc" } else { "readlink:inroot" });
            stats.class(match b.size {
                None => "buffer:NULL",
                Some(0) => "buffer:zero-sized",
                Some(s) if s < b.len => "buffer:shorter-than-body",
                Some(s) if s == b.len => "buffer:exact",
                _ => "buffer:longer",
            });
            stats.nontrivial_key(&format!("{:?}", b));
            stats.sample(|| json!({"readlink": format!("{:?}", b), "returned": rep.ret}));
        }
    }
    let mut problems = rep.problems.clone();
    problems.extend(rep.tree_changed.iter().map(|c| format!("the tree changed although the call had to fail: {}", c)));
    problems.extend(rep.fds_changed.iter().cloned());
    if let Some(p) = problems.first() {
        let sig = match case {
            Case::Arg(a) => {
                let what = if p.contains("although an argument is invalid") {
                    "accepted"
                } else if p.contains("errno range") {
                    "id-in-errno-range"
                } else if p.contains("saved_errno") {
                    "wrong-errno"
                } else if p.contains("tree changed") {
                    "side-effect"
                } else if p.contains("descriptor") {
                    "descriptor-table"
                } else {
                    "other"
                };
                let cls = if a.fd != FdClass::Valid { format!("fd:{:?}", a.fd) } else if a.path != PathClass::Valid || a.path2 != PathClass::Valid { "path".into() } else if a.base.is_some() { "base".into() } else if a.mode.is_some() { "mode".into() } else { "valid".into() };
                format!("arg:{:?}:{}:{}", a.func, cls, what)
            }
            Case::Buf(b) => format!("buffer:{}:{}", if b.proc_link { "proc" } else { "inroot" }, if p.contains("overwritten") { "overrun" } else if p.contains("returned") { "length" } else if p.contains("differ") { "content" } else { "failed" }),
        };
        return Err(Fail::Violation(Violation { check: "c-boundary".into(), signature: sig, message: format!("{:?}\n  expected: {}\n  returned: {} errno={:?} {:?}\n  {}", case, rep.expected, rep.ret, rep.errno.map(|e| errno_name(e as i32)), rep.description, problems.join("\n  ")), case: serde_json::to_value(case).unwrap() }));
    }
    Ok(())
}

pub fn check(case: &Case, stats: &mut Stats) -> Result<(), Fail> {
    let r = match case {
        Case::Arg(a) => run_in_child(60.0, || arg_child(a)),
        Case::Buf(b) => run_in_child(60.0, || buf_child(b)),
    };
    match r {
        ChildOut::Ok(rep) => judge(case, &rep, stats),
        ChildOut::Crashed { sig } => Err(Fail::Violation(Violation { check: "c-boundary".into(), signature: format!("crash:sig{}:{}", sig, match case { Case::Arg(a) => format!("{:?}", a.func), Case::Buf(_) => "readlink-buffer".into() }), message: format!("the process died with signal {} in {:?}", sig, case), case: serde_json::to_value(case).unwrap() })),
        ChildOut::Exit { code, stderr_hint } => Err(Fail::Harness(format!("child exit {}: {}", code, stderr_hint))),
        ChildOut::Timeout => Err(Fail::Harness("child timed out".into())),
    }
}

fn run_lane(ctx: &Ctx, lr: &mut LaneResult) {
    let args: Vec<Case> = all_arg_cases().into_iter().map(Case::Arg).collect();
    run_fixed(ctx, lr, "c-boundary", &args, &check);
    if !lr.violations.is_empty() {
        return;
    }
    let bufs: Vec<Case> = all_buf_cases().into_iter().map(Case::Buf).collect();
    run_fixed(ctx, lr, "c-boundary", &bufs, &check);
    if !lr.violations.is_empty() {
        return;
    }
    // sampled: long bodies, arbitrary buffer sizes; pairs of invalid arguments
    search(ctx, lr, "c-boundary", ctx.tier.pick(8000, 80000), sampled_buf().prop_map(Case::Buf), &check);
    if !lr.violations.is_empty() {
        return;
    }
    let two = (0usize..FUNCS.len(), 0u8..6, 0u8..3, 0u8..3, proptest::option::of(prop_oneof![any::<u64>(), (1u64..=u32::MAX as u64, 0usize..3).prop_map(|(hi, k)| [PATHRS_PROC_ROOT, PATHRS_PROC_SELF, PATHRS_PROC_THREAD_SELF][k] | hi << 32)]), proptest::option::of(any::<u32>())).prop_map(|(f, fd, p, p2, base, mode)| {
        let fdc = [FdClass::Valid, FdClass::MinusOne, FdClass::MinusEbadf, FdClass::IntMin, FdClass::AtFdcwd, FdClass::Closed][fd as usize];
        let pc = [PathClass::Valid, PathClass::Null, PathClass::Empty];
        let func = FUNCS[f];
        Case::Arg(ArgCase { func, fd: fdc, path: pc[p as usize], path2: pc[p2 as usize], base: if takes_base(func) { base } else { None }, mode: if matches!(func, Func::MkdirAll | Func::Mknod) { mode.map(|m| m | 0o4000) } else { None } })
    });
    search(ctx, lr, "c-boundary", ctx.tier.pick(8000, 80000), two, &check);
}

fn replay(_ctx: &Ctx, _check: &str, case: &Value) -> Result<(), Fail> {
    let case: Case = serde_json::from_value(case.clone()).map_err(|e| Fail::Harness(format!("bad case: {}", e)))?;
    let mut s = Stats::default();
    check(&case, &mut s)
}

pub const PROP: Prop = Prop {
    id: "C17",
    level: "exploration",
    rule: "(a) enumerated completely: each of the 18 argument-taking C functions x each single invalid argument class {descriptor -1, -EBADF, INT_MIN, AT_FDCWD, a closed descriptor number; NULL path; (empty path as a valid one); 13 unknown procfs base values incl. valid+-1, valid constants moved to the upper half, and valid constants in the lower half with garbage in the upper half (what a caller passing the base through a 32-bit type produces); modes with setuid/setgid/type bits for mkdir_all; S_IFSOCK, S_IFLNK, typeless and garbage modes for mknod}, every other argument valid, plus the all-valid call; (b) enumerated completely: pathrs_inroot_readlink for every link-body length 1..64 x every buffer size 0..length+3, NULL buffer with size 0 and with a non-zero size; pathrs_proc_readlink for fd links with target paths of 40..4000 bytes x {0,1,len-1,len,len+1,len+3,NULL}; (c) sampled: body lengths up to 4095 x arbitrary sizes, and calls with several invalid arguments at once. Oracle: invalid => return value < -4095 whose errorinfo says EINVAL (EBADF for a closed descriptor, ENOSYS for S_IFSOCK), tree unchanged, descriptor table unchanged (nothing lent is closed or replaced, nothing new except a returned descriptor); readlink returns the full length, copies exactly min(length, size) bytes, every other byte of two canary pages is untouched and the buffer ends flush against a PROT_NONE page, so an overrun by one byte kills the child (crash = violation). non-trivial = calls with an invalid argument, and all buffer cases",
    assumptions: &["descriptor numbers < 400 are audited", "procfs link bodies cannot be shorter than the sandbox path prefix, so their exhaustive part starts at 40 bytes"],
    lanes: |_| 16,
    run_lane,
    replay,
    extra: Some(|_| json!({"exhaustive_scope": "all single-invalid-argument calls of all functions; inroot readlink lengths 1..64 x sizes 0..len+3 and NULL"})),
    exhaustive: false,
};
