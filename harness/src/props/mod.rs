pub mod c01;
pub mod c02;
pub mod c03;
pub mod c04;
pub mod c05;
pub mod c06;
pub mod c07;
pub mod c08;
pub mod c09;
pub mod c10;
pub mod c11;
pub mod c12;
pub mod c13;
pub mod c14;
pub mod c15;
pub mod c16;
pub mod c17;

use crate::driver::Prop;

pub fn all() -> Vec<&'static Prop> {
    vec![&c01::PROP, &c02::PROP, &c03::PROP, &c04::PROP, &c05::PROP, &c06::PROP, &c07::PROP, &c08::PROP, &c09::PROP, &c10::PROP, &c11::PROP, &c12::PROP, &c13::PROP, &c14::PROP, &c15::PROP, &c16::PROP, &c17::PROP]
}
