pub mod c01;
pub mod c04;

use crate::driver::Prop;

pub fn all() -> Vec<&'static Prop> {
    vec![&c01::PROP, &c04::PROP]
}
