pub mod c01;

use crate::driver::Prop;

pub fn all() -> Vec<&'static Prop> {
    vec![&c01::PROP]
}
