//! Sandbox directories, generated tree specifications, snapshots.

use crate::util::*;
use serde::{Deserialize, Serialize};
use std::collections::{BTreeMap, BTreeSet};
use std::ffi::CString;
use std::path::{Path, PathBuf};

/// Placeholder inside symlink bodies, replaced by the absolute path of
/// `SB/outside` when the tree is materialised.
pub const OUT_TOKEN: &[u8] = b"@OUT@";

#[derive(Clone, Debug, PartialEq, Eq, Hash, Serialize, Deserialize)]
pub enum Node {
    Dir { mode: u32 },
    File { mode: u32, content: B },
    Fifo,
    Chr,
    Symlink { body: B },
    Hardlink { to: B },
}

#[derive(Clone, Debug, PartialEq, Eq, Hash, Serialize, Deserialize, Default)]
pub struct TreeSpec {
    /// (path relative to root, node); parents precede children.
    pub entries: Vec<(B, Node)>,
}

impl TreeSpec {
    pub fn hash(&self) -> u64 {
        fnv(serde_json::to_string(self).unwrap().as_bytes())
    }
    pub fn dirs(&self) -> Vec<B> {
        let mut v = vec![B::new("")];
        for (p, n) in &self.entries {
            if matches!(n, Node::Dir { .. }) {
                v.push(p.clone());
            }
        }
        v
    }
    pub fn paths(&self) -> Vec<B> {
        self.entries.iter().map(|(p, _)| p.clone()).collect()
    }
    pub fn node(&self, p: &B) -> Option<&Node> {
        self.entries.iter().find(|(q, _)| q == p).map(|(_, n)| n)
    }
    pub fn has_symlink(&self) -> bool {
        self.entries.iter().any(|(_, n)| matches!(n, Node::Symlink { .. }))
    }
}

pub struct Sandbox {
    pub base: PathBuf,
}

pub fn scratch_base() -> PathBuf {
    if let Ok(s) = std::env::var("VERIF_SCRATCH") {
        return PathBuf::from(s);
    }
    if Path::new("/dev/shm").is_dir() {
        PathBuf::from("/dev/shm")
    } else {
        PathBuf::from("/tmp")
    }
}

impl Sandbox {
    /// Create `SB` with root/, outside/ (decoys), stash/.
    pub fn create(tag: &str) -> Sandbox {
        let base = scratch_base().join(format!("pv.{}.{}", std::process::id(), tag));
        rm_rf(&base);
        mkdir_p(&base);
        let sb = Sandbox { base };
        mkdir_p(&sb.root());
        mkdir_p(&sb.stash());
        sb.make_decoys();
        sb
    }
    pub fn root(&self) -> PathBuf {
        self.base.join("root")
    }
    pub fn twin(&self) -> PathBuf {
        self.base.join("root.twin")
    }
    pub fn outside(&self) -> PathBuf {
        self.base.join("outside")
    }
    pub fn stash(&self) -> PathBuf {
        self.base.join("stash")
    }
    fn make_decoys(&self) {
        // The things an escape would hit: same names as the inside alphabet,
        // unique contents so that a leaked body/content is recognisable.
        let o = self.outside();
        mkdir_p(&o);
        for (i, n) in ["a", "b", "c", "d", "e", "secret"].iter().enumerate() {
            std::fs::write(o.join(format!("{}.f", n)), format!("OUTSIDE-file-{}", i)).unwrap();
        }
        mkdir_p(&o.join("dir"));
        mkdir_p(&o.join("dir/sub"));
        std::fs::write(o.join("dir/child"), "OUTSIDE-child").unwrap();
        std::fs::write(o.join("dir/sub/deep"), "OUTSIDE-deep").unwrap();
        let _ = std::os::unix::fs::symlink("OUTSIDE-link-body", o.join("link"));
        // a two-level forest with the inside alphabet next to the root and in
        // the stash (where a '..' from a moved-out directory lands)
        // ... and in a sibling whose name reads like the kernel's decoration of an
        // unlinked root in /proc/<pid>/fd links ("<root> (deleted)"): checks that
        // compare such link texts must not take it for the root
        let lookalike = self.base.join("root (deleted)");
        mkdir_p(&lookalike);
        for top in [self.base.clone(), self.stash(), lookalike] {
            for n in ["a", "b", "c", "d", "e"] {
                let d = top.join(n);
                mkdir_p(&d);
                for m in ["a", "b", "c", "d", "e", "x"] {
                    let _ = std::fs::write(d.join(m), format!("OUTSIDE-decoy-{}-{}", n, m));
                }
                let _ = std::os::unix::fs::symlink(format!("OUTSIDE-decoy-link-{}", n), d.join("l"));
            }
            let _ = std::fs::write(top.join("f"), "OUTSIDE-basefile");
            let _ = std::fs::write(top.join("new0"), "OUTSIDE-new0");
        }
    }

    pub fn materialise(&self, spec: &TreeSpec, at: &Path) {
        mkdir_p(at);
        let out = self.outside();
        let out_b = out.as_os_str().as_encoded_bytes().to_vec();
        let mut hardlinks = Vec::new();
        for (rel, node) in &spec.entries {
            let p = at.join(rel.as_path());
            let c = CString::new(p.as_os_str().as_encoded_bytes()).unwrap();
            match node {
                Node::Dir { mode } => {
                    let r = unsafe { libc::mkdir(c.as_ptr(), 0o755) };
                    assert!(r == 0, "mkdir {:?}: {}", p, errno());
                    unsafe { libc::chmod(c.as_ptr(), *mode) };
                }
                Node::File { mode, content } => {
                    std::fs::write(&p, &content.0).unwrap_or_else(|e| panic!("write {:?}: {}", p, e));
                    unsafe { libc::chmod(c.as_ptr(), *mode) };
                }
                Node::Fifo => {
                    let r = unsafe { libc::mkfifo(c.as_ptr(), 0o644) };
                    assert!(r == 0, "mkfifo {:?}: {}", p, errno());
                }
                Node::Chr => {
                    let r = unsafe { libc::mknod(c.as_ptr(), libc::S_IFCHR | 0o666, libc::makedev(1, 3)) };
                    assert!(r == 0, "mknod {:?}: {}", p, errno());
                }
                Node::Symlink { body } => {
                    let body = replace_token(&body.0, OUT_TOKEN, &out_b);
                    let t = CString::new(body).unwrap();
                    let r = unsafe { libc::symlink(t.as_ptr(), c.as_ptr()) };
                    assert!(r == 0, "symlink {:?}: {}", p, errno());
                }
                Node::Hardlink { to } => hardlinks.push((p.clone(), at.join(to.as_path()))),
            }
        }
        for (p, to) in hardlinks {
            // best-effort: a hardlink to a directory or missing target is skipped
            let _ = std::fs::hard_link(&to, &p);
        }
    }

    /// Rebuild only the root (and drop what an attacker left in the stash);
    /// the decoy forest stays.
    pub fn reset_root(&self, spec: &TreeSpec) {
        rm_rf(&self.root());
        rm_rf(&self.base.join("root.moved"));
        for dir in [self.stash(), self.base.join("root (deleted)")] {
            if let Ok(rd) = std::fs::read_dir(dir) {
                for e in rd.flatten() {
                    let n = e.file_name().to_string_lossy().to_string();
                    if is_attacker_name(&n) {
                        rm_rf(&e.path());
                    }
                }
            }
        }
        self.materialise(spec, &self.root());
    }

    pub fn destroy(&self) {
        rm_rf(&self.base);
    }
}

/// names the attacker creates in the stash: m<N>, x<N>, l<N>, f<N>, o<N>
pub fn is_attacker_name(n: &str) -> bool {
    let mut ch = n.chars();
    match ch.next() {
        Some('m') | Some('x') | Some('l') | Some('f') | Some('o') => {
            let rest: String = ch.collect();
            !rest.is_empty() && rest.chars().all(|c| c.is_ascii_digit())
        }
        _ => false,
    }
}

pub fn replace_token(body: &[u8], token: &[u8], with: &[u8]) -> Vec<u8> {
    let mut out = Vec::new();
    let mut i = 0;
    while i < body.len() {
        if body[i..].starts_with(token) {
            out.extend_from_slice(with);
            i += token.len();
        } else {
            out.push(body[i]);
            i += 1;
        }
    }
    out
}

// ---------------------------------------------------------------------------
// Snapshots

#[derive(Clone, Debug, PartialEq, Eq, Serialize, Deserialize)]
pub struct Entry {
    pub ftype: u32,
    pub dev: u64,
    pub ino: u64,
    pub mode: u32,
    pub uid: u32,
    pub gid: u32,
    pub size: u64,
    pub nlink: u64,
    pub rdev: u64,
    /// link body for symlinks, content hash (hex) for regular files
    pub body: Option<B>,
    pub chash: Option<u64>,
}

impl Entry {
    pub fn id(&self) -> Ident {
        Ident { dev: self.dev, ino: self.ino }
    }
    /// Projection without inode numbers / nlink (twin comparison, frame condition).
    pub fn proj(&self) -> String {
        format!(
            "{} mode={:o} uid={} gid={} size={} rdev={:x} body={:?} chash={:?}",
            ftype_name(self.ftype),
            self.mode & 0o7777,
            self.uid,
            self.gid,
            if self.ftype == libc::S_IFDIR { 0 } else { self.size },
            self.rdev,
            self.body,
            self.chash
        )
    }
}

#[derive(Clone, Debug, Default, PartialEq, Eq)]
pub struct Snapshot {
    /// relpath ("" is the top itself) -> entry
    pub map: BTreeMap<B, Entry>,
}

impl Snapshot {
    pub fn take_path(top: &Path) -> Snapshot {
        let fd = openat_raw(libc::AT_FDCWD, top.as_os_str().as_encoded_bytes(), libc::O_RDONLY | libc::O_DIRECTORY | libc::O_NOFOLLOW, 0)
            .unwrap_or_else(|e| panic!("snapshot open {:?}: {}", top, e));
        let s = Snapshot::take(fd);
        close(fd);
        s
    }
    pub fn take(topfd: i32) -> Snapshot {
        let mut s = Snapshot::default();
        let st = fstat(topfd).expect("fstat top");
        s.map.insert(B::new(""), entry_from(&st, None, None));
        walk(topfd, &B::new(""), &mut s.map, 0, None);
        s
    }
    /// Like take_path, but file contents are only read below `full_under`;
    /// elsewhere (size, mtime) stands in for the content hash.
    pub fn take_path_light(top: &Path, full_under: &B) -> Snapshot {
        let fd = openat_raw(libc::AT_FDCWD, top.as_os_str().as_encoded_bytes(), libc::O_RDONLY | libc::O_DIRECTORY | libc::O_NOFOLLOW, 0)
            .unwrap_or_else(|e| panic!("snapshot open {:?}: {}", top, e));
        let mut s = Snapshot::default();
        let st = fstat(fd).expect("fstat top");
        s.map.insert(B::new(""), entry_from(&st, None, None));
        walk(fd, &B::new(""), &mut s.map, 0, Some(full_under));
        close(fd);
        s
    }
    pub fn idents(&self) -> BTreeSet<Ident> {
        self.map.values().map(|e| e.id()).collect()
    }
    pub fn label_of(&self, id: Ident) -> Option<B> {
        self.map.iter().find(|(_, e)| e.id() == id).map(|(p, _)| p.clone())
    }
    pub fn by_ident(&self) -> BTreeMap<Ident, Vec<B>> {
        let mut m: BTreeMap<Ident, Vec<B>> = BTreeMap::new();
        for (p, e) in &self.map {
            m.entry(e.id()).or_default().push(p.clone());
        }
        m
    }
    /// Path-projected view (no inode numbers), for twin comparison.
    pub fn projected(&self) -> BTreeMap<B, String> {
        self.map.iter().map(|(p, e)| (p.clone(), e.proj())).collect()
    }
    /// Restrict to paths below (or equal to) prefix; keys stay absolute-in-snapshot.
    pub fn sub(&self, prefix: &B) -> Snapshot {
        let mut m = BTreeMap::new();
        for (p, e) in &self.map {
            if under(p, prefix) {
                m.insert(p.clone(), e.clone());
            }
        }
        Snapshot { map: m }
    }
}

pub fn under(p: &B, prefix: &B) -> bool {
    if prefix.0.is_empty() {
        return true;
    }
    p.0 == prefix.0 || (p.0.starts_with(&prefix.0) && p.0.get(prefix.0.len()) == Some(&b'/'))
}

fn entry_from(st: &St, body: Option<B>, chash: Option<u64>) -> Entry {
    Entry {
        ftype: st.ftype(),
        dev: st.id.dev,
        ino: st.id.ino,
        mode: st.mode,
        uid: st.uid,
        gid: st.gid,
        size: st.size,
        nlink: st.nlink,
        rdev: st.rdev,
        body,
        chash,
    }
}

fn walk(dirfd: i32, prefix: &B, out: &mut BTreeMap<B, Entry>, depth: usize, full_under: Option<&B>) {
    if depth > 3000 {
        return;
    }
    let names = match listdir(dirfd) {
        Ok(n) => n,
        Err(_) => return,
    };
    for name in names {
        let rel = prefix.join(&name);
        let st = match fstatat(dirfd, &name, true) {
            Ok(s) => s,
            Err(_) => continue,
        };
        match st.ftype() {
            libc::S_IFLNK => {
                let body = readlinkat(dirfd, &name).ok().map(B);
                out.insert(rel, entry_from(&st, body, None));
            }
            libc::S_IFREG => {
                let mut chash = None;
                let light = match full_under {
                    Some(fu) => !under(&rel, fu),
                    None => false,
                };
                if light {
                    chash = Some(fnv(format!("{}:{}:{}", st.size, st.mtime_s, st.mtime_ns).as_bytes()));
                } else if let Ok(fd) = openat_raw(dirfd, &name, libc::O_RDONLY | libc::O_NOFOLLOW | libc::O_NONBLOCK | libc::O_NOATIME, 0) {
                    let data = read_all(fd, 1 << 20);
                    chash = Some(fnv(&data));
                    close(fd);
                }
                out.insert(rel, entry_from(&st, None, chash));
            }
            libc::S_IFDIR => {
                out.insert(rel.clone(), entry_from(&st, None, None));
                if let Ok(fd) = openat_raw(dirfd, &name, libc::O_RDONLY | libc::O_DIRECTORY | libc::O_NOFOLLOW, 0) {
                    // do not cross mount points
                    if let Ok(st2) = fstat(fd) {
                        if st2.id.dev == st.id.dev {
                            walk(fd, &rel, out, depth + 1, full_under);
                        }
                    }
                    close(fd);
                }
            }
            _ => {
                out.insert(rel, entry_from(&st, None, None));
            }
        }
    }
}

/// Difference between two snapshots, as readable lines. Compares by path;
/// `with_ino` also requires inode identity to be unchanged per path.
pub fn diff(a: &Snapshot, b: &Snapshot, with_ino: bool) -> Vec<String> {
    let mut out = Vec::new();
    for (p, e) in &a.map {
        match b.map.get(p) {
            None => out.push(format!("- {} ({})", p, e.proj())),
            Some(f) => {
                if e.proj() != f.proj() {
                    out.push(format!("~ {} ({}) -> ({})", p, e.proj(), f.proj()));
                } else if with_ino && e.id() != f.id() {
                    out.push(format!("~ {} inode {:?} -> {:?}", p, e.id(), f.id()));
                }
            }
        }
    }
    for (p, e) in &b.map {
        if !a.map.contains_key(p) {
            out.push(format!("+ {} ({})", p, e.proj()));
        }
    }
    out
}

#[derive(Clone, Debug, PartialEq, Eq)]
pub enum Change {
    Removed(B),
    Added(B),
    Modified(B),
}

pub fn changes(a: &Snapshot, b: &Snapshot) -> Vec<Change> {
    let mut out = Vec::new();
    for (p, e) in &a.map {
        match b.map.get(p) {
            None => out.push(Change::Removed(p.clone())),
            Some(f) => {
                if e.proj() != f.proj() || e.id() != f.id() {
                    out.push(Change::Modified(p.clone()));
                }
            }
        }
    }
    for (p, _) in &b.map {
        if !a.map.contains_key(p) {
            out.push(Change::Added(p.clone()));
        }
    }
    out
}
