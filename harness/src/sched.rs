//! The gate as a thread scheduler: 2-3 library calls run on their own filtered
//! threads; the supervisor parks each of them at every system call of the call
//! and releases exactly one per step, as a generated schedule dictates.

use crate::exec::*;
use crate::gate::*;
use crate::ops::*;
use crate::util::*;
use serde::{Deserialize, Serialize};
use std::sync::atomic::{AtomicI32, Ordering};
use std::sync::Arc;

#[repr(C)]
#[derive(Clone, Copy, Default)]
struct SeccompData {
    nr: i32,
    arch: u32,
    ip: u64,
    args: [u64; 6],
}
#[repr(C)]
#[derive(Clone, Copy, Default)]
struct SeccompNotif {
    id: u64,
    pid: u32,
    flags: u32,
    data: SeccompData,
}
#[repr(C)]
#[derive(Clone, Copy, Default)]
struct SeccompNotifResp {
    id: u64,
    val: i64,
    error: i32,
    flags: u32,
}
const NOTIF_RECV: libc::c_ulong = 0xC050_2100;
const NOTIF_SEND: libc::c_ulong = 0xC018_2101;

#[derive(Clone, Debug, Default, Serialize, Deserialize)]
pub struct SchedStats {
    pub steps: usize,
    pub preemptions: usize,
    pub blocked_steps: usize,
    /// per worker: names of the syscalls released one by one
    pub interleaving: Vec<(u8, String)>,
    pub problem: Option<String>,
}

pub const MAX_PREEMPTIONS: usize = 4;

#[derive(Clone, Copy, PartialEq, Eq, Debug)]
enum WState {
    /// not yet at the start marker / running freely
    Free,
    /// parked at a notification we hold (id)
    Parked(u64, bool),
    /// released, executing (we wait for its next notification)
    Running,
    /// past the end marker
    Done,
}

fn recv(lfd: i32) -> Option<SeccompNotif> {
    let mut n = SeccompNotif::default();
    let r = unsafe { libc::ioctl(lfd, NOTIF_RECV, &mut n as *mut SeccompNotif) };
    if r < 0 {
        None
    } else {
        Some(n)
    }
}

fn send_continue(lfd: i32, id: u64) {
    let resp = SeccompNotifResp { id, val: 0, error: 0, flags: 1 };
    unsafe { libc::ioctl(lfd, NOTIF_SEND, &resp as *const SeccompNotifResp) };
}

fn send_value(lfd: i32, id: u64) {
    let resp = SeccompNotifResp { id, val: 0, error: 0, flags: 0 };
    unsafe { libc::ioctl(lfd, NOTIF_SEND, &resp as *const SeccompNotifResp) };
}

/// Run `ops[i]` on worker i concurrently under `schedule`. Returns the
/// outcomes (descriptors are inspected and closed on the worker).
pub fn run_scheduled(kcfg: Kcfg, rootpath: &std::path::Path, no_symlinks: bool, ops: &[Op], schedule: &[u8]) -> (Vec<Out>, SchedStats) {
    // Pre-warm the process-global lazies on a filtered thread so that workers
    // do not block each other in one-time initialisers.
    std::thread::scope(|s| {
        s.spawn(|| {
            let _wg = attach_plain(kcfg);
            if let Ok(root) = open_root(rootpath, no_symlinks) {
                let _ = guarded(|| root.resolve(".")).map(|h| {
                    let _ = guarded(|| h.reopen(pathrs::flags::OpenFlags::O_RDONLY));
                });
                let _ = guarded(|| root.resolve("nonexistent-warmup/.."));
                let _ = guarded(|| root.rename("nonexistent-warmup-a", "nonexistent-warmup-b", pathrs::flags::RenameFlags::RENAME_NOREPLACE));
            }
        })
        .join()
        .ok();
    });
    let n = ops.len();
    let listeners: Vec<Arc<AtomicI32>> = (0..n).map(|_| Arc::new(AtomicI32::new(-1))).collect();
    let mut stats = SchedStats::default();
    let outs: Vec<Out> = std::thread::scope(|s| {
        let mut handles = vec![];
        for (i, op) in ops.iter().enumerate() {
            let l = listeners[i].clone();
            handles.push(
                std::thread::Builder::new()
                    .name(format!("pv-worker{}", i))
                    .stack_size(256 << 20)
                    .spawn_scoped(s, move || {
                        let lfd = install_filter(&kcfg.enosys(), true).expect("install filter").unwrap();
                        l.store(lfd, Ordering::Release);
                        let wg = WorkerGate::notifying();
                        let root = match open_root(rootpath, no_symlinks) {
                            Ok(r) => r,
                            Err(o) => return o,
                        };
                        wg.enter(i as u32);
                        let (out, fd) = exec_op(&root, op, false);
                        drop(fd);
                        wg.exit();
                        drop(root);
                        out
                    })
                    .expect("spawn worker"),
            );
        }
        // supervisor (this thread)
        let mut lfds = vec![-1i32; n];
        for i in 0..n {
            loop {
                let l = listeners[i].load(Ordering::Acquire);
                if l >= 0 {
                    lfds[i] = l;
                    break;
                }
                std::thread::yield_now();
            }
        }
        let mut st = vec![WState::Free; n];
        let mut last: Option<usize> = None;
        let mut step = 0usize;
        let deadline = now_s() + 90.0;
        // Pump: receive notifications; hold in-call ones, auto-continue the rest.
        // `wait_for`: block until that worker parks / finishes, or 200 ms pass.
        let pump = |st: &mut Vec<WState>, wait_for: Option<usize>, timeout_ms: i32| -> bool {
            // returns true if something was received
            let mut pfds: Vec<libc::pollfd> = lfds.iter().map(|&fd| libc::pollfd { fd, events: libc::POLLIN, revents: 0 }).collect();
            let r = unsafe { libc::poll(pfds.as_mut_ptr(), pfds.len() as libc::nfds_t, timeout_ms) };
            if r <= 0 {
                return false;
            }
            let mut got = false;
            for (i, p) in pfds.iter().enumerate() {
                if p.revents & libc::POLLIN == 0 {
                    if p.revents & (libc::POLLHUP | libc::POLLERR) != 0 && st[i] != WState::Done {
                        st[i] = WState::Done;
                        got = true;
                    }
                    continue;
                }
                let nt = match recv(lfds[i]) {
                    Some(x) => x,
                    None => continue,
                };
                got = true;
                let nr = nt.data.nr as i64;
                let is_marker = nr == 72 && nt.data.args[0] as i32 == MARK_FD;
                if is_marker {
                    match nt.data.args[1] as i32 {
                        MARK_ENTER => st[i] = WState::Parked(nt.id, true),
                        _ => {
                            send_value(lfds[i], nt.id);
                            st[i] = WState::Done;
                        }
                    }
                    continue;
                }
                match st[i] {
                    WState::Free | WState::Done => send_continue(lfds[i], nt.id),
                    _ => {
                        if HARNESS_SECTION.load(Ordering::SeqCst) && false {
                            send_continue(lfds[i], nt.id);
                        } else {
                            // descriptor-local calls are not scheduling points
                            let neutral = desc(nr).map(|d| d.neutral).unwrap_or(false);
                            if neutral {
                                send_continue(lfds[i], nt.id);
                            } else {
                                st[i] = WState::Parked(nt.id, false);
                            }
                        }
                    }
                }
            }
            let _ = wait_for;
            got
        };
        // 1. bring every worker to its start marker
        while st.iter().any(|x| matches!(x, WState::Free)) && now_s() < deadline {
            pump(&mut st, None, 200);
        }
        // 2. schedule
        loop {
            if now_s() > deadline {
                stats.problem = Some("scheduler deadline exceeded".into());
                // release everything
                for i in 0..n {
                    if let WState::Parked(id, marker) = st[i] {
                        if marker {
                            send_value(lfds[i], id);
                        } else {
                            send_continue(lfds[i], id);
                        }
                        st[i] = WState::Free;
                    }
                }
                break;
            }
            if st.iter().all(|x| *x == WState::Done) {
                break;
            }
            // wait for the released worker(s) to park again or finish
            let running: Vec<usize> = (0..n).filter(|&i| st[i] == WState::Running).collect();
            if !running.is_empty() {
                let t0 = now_s();
                let mut progressed = false;
                while now_s() - t0 < 0.2 {
                    if pump(&mut st, None, 20) && running.iter().all(|&i| st[i] != WState::Running) {
                        progressed = true;
                        break;
                    }
                    if running.iter().all(|&i| st[i] != WState::Running) {
                        progressed = true;
                        break;
                    }
                }
                if !progressed {
                    // blocked on a userspace lock held by a parked worker
                    stats.blocked_steps += 1;
                }
            }
            let parked: Vec<usize> = (0..n).filter(|&i| matches!(st[i], WState::Parked(..))).collect();
            if parked.is_empty() {
                if st.iter().all(|x| matches!(x, WState::Done | WState::Running)) && st.iter().any(|x| *x == WState::Running) {
                    // only blocked/running workers left: keep pumping
                    pump(&mut st, None, 50);
                    continue;
                }
                if st.iter().all(|x| *x == WState::Done) {
                    break;
                }
                pump(&mut st, None, 50);
                continue;
            }
            // choose
            let byte = if schedule.is_empty() { 0 } else { schedule[step % schedule.len()] } as usize;
            let mut choice = parked[(byte * parked.len()) >> 8];
            if let Some(l) = last {
                if parked.contains(&l) && choice != l {
                    if stats.preemptions >= MAX_PREEMPTIONS {
                        choice = l;
                    } else {
                        stats.preemptions += 1;
                    }
                }
            }
            if let WState::Parked(id, marker) = st[choice] {
                if marker {
                    send_value(lfds[choice], id);
                } else {
                    send_continue(lfds[choice], id);
                }
                st[choice] = WState::Running;
                if stats.interleaving.len() < 400 {
                    stats.interleaving.push((choice as u8, String::new()));
                }
            }
            last = Some(choice);
            step += 1;
            stats.steps = step;
        }
        // 3. let everything finish: auto-continue until all threads are joined
        let outs: Vec<Out> = {
            let mut res: Vec<Option<Out>> = (0..n).map(|_| None).collect();
            let mut hs: Vec<Option<std::thread::ScopedJoinHandle<Out>>> = handles.into_iter().map(Some).collect();
            let t_end = now_s() + 30.0;
            while res.iter().any(|r| r.is_none()) && now_s() < t_end {
                for i in 0..n {
                    if res[i].is_none() && hs[i].as_ref().map(|h| h.is_finished()).unwrap_or(false) {
                        let h = hs[i].take().unwrap();
                        res[i] = Some(h.join().unwrap_or_else(|e| Out::Panicked(panic_msg(&e))));
                    }
                }
                // drain notifications
                let mut pfds: Vec<libc::pollfd> = lfds.iter().map(|&fd| libc::pollfd { fd, events: libc::POLLIN, revents: 0 }).collect();
                let r = unsafe { libc::poll(pfds.as_mut_ptr(), pfds.len() as libc::nfds_t, 5) };
                if r > 0 {
                    for (i, p) in pfds.iter().enumerate() {
                        if p.revents & libc::POLLIN != 0 {
                            if let Some(nt) = recv(lfds[i]) {
                                let is_marker = nt.data.nr as i64 == 72 && nt.data.args[0] as i32 == MARK_FD;
                                if is_marker {
                                    send_value(lfds[i], nt.id);
                                } else {
                                    send_continue(lfds[i], nt.id);
                                }
                            }
                        }
                    }
                }
            }
            if res.iter().any(|r| r.is_none()) {
                stats.problem = Some("a worker did not finish".into());
            }
            res.into_iter().map(|r| r.unwrap_or(Out::Err { kind: "harness-timeout".into(), errno: None })).collect()
        };
        for l in lfds {
            close(l);
        }
        outs
    });
    (outs, stats)
}
