//! Small shared helpers: byte strings with readable serde, raw syscalls the
//! harness issues on its own behalf (kernel oracle, attacker), hashing.

use serde::{Deserialize, Deserializer, Serialize, Serializer};
use std::ffi::{CString, OsStr, OsString};
use std::fmt;
use std::os::unix::ffi::{OsStrExt, OsStringExt};
use std::path::{Path, PathBuf};

/// A byte string (path, link body, name) which serialises as an escaped
/// ASCII string so that replay files stay readable and lossless.
#[derive(Clone, PartialEq, Eq, Hash, PartialOrd, Ord, Default)]
pub struct B(pub Vec<u8>);

impl B {
    pub fn new<T: AsRef<[u8]>>(t: T) -> Self {
        B(t.as_ref().to_vec())
    }
    pub fn as_path(&self) -> &Path {
        Path::new(OsStr::from_bytes(&self.0))
    }
    pub fn to_pathbuf(&self) -> PathBuf {
        PathBuf::from(OsString::from_vec(self.0.clone()))
    }
    pub fn cstr(&self) -> CString {
        // Truncate at NUL like C would; callers that care check has_nul().
        let end = self.0.iter().position(|&b| b == 0).unwrap_or(self.0.len());
        CString::new(&self.0[..end]).unwrap()
    }
    pub fn has_nul(&self) -> bool {
        self.0.contains(&0)
    }
    pub fn esc(&self) -> String {
        esc(&self.0)
    }
    pub fn len(&self) -> usize {
        self.0.len()
    }
    pub fn is_empty(&self) -> bool {
        self.0.is_empty()
    }
    pub fn join(&self, other: &[u8]) -> B {
        let mut v = self.0.clone();
        if !v.is_empty() && !v.ends_with(b"/") {
            v.push(b'/');
        }
        v.extend_from_slice(other);
        B(v)
    }
}

pub fn esc(b: &[u8]) -> String {
    let mut s = String::with_capacity(b.len());
    for &c in b {
        if c == b'\\' {
            s.push_str("\\\\");
        } else if (0x20..0x7f).contains(&c) {
            s.push(c as char);
        } else {
            s.push_str(&format!("\\x{:02x}", c));
        }
    }
    s
}

pub fn unesc(s: &str) -> Vec<u8> {
    let b = s.as_bytes();
    let mut out = Vec::with_capacity(b.len());
    let mut i = 0;
    while i < b.len() {
        if b[i] == b'\\' && i + 1 < b.len() {
            if b[i + 1] == b'\\' {
                out.push(b'\\');
                i += 2;
                continue;
            }
            if b[i + 1] == b'x' && i + 3 < b.len() {
                if let Ok(v) = u8::from_str_radix(&s[i + 2..i + 4], 16) {
                    out.push(v);
                    i += 4;
                    continue;
                }
            }
        }
        out.push(b[i]);
        i += 1;
    }
    out
}

impl fmt::Debug for B {
    fn fmt(&self, f: &mut fmt::Formatter<'_>) -> fmt::Result {
        write!(f, "\"{}\"", self.esc())
    }
}
impl fmt::Display for B {
    fn fmt(&self, f: &mut fmt::Formatter<'_>) -> fmt::Result {
        write!(f, "{}", self.esc())
    }
}
impl Serialize for B {
    fn serialize<S: Serializer>(&self, s: S) -> Result<S::Ok, S::Error> {
        s.serialize_str(&self.esc())
    }
}
impl<'de> Deserialize<'de> for B {
    fn deserialize<D: Deserializer<'de>>(d: D) -> Result<Self, D::Error> {
        let s = String::deserialize(d)?;
        Ok(B(unesc(&s)))
    }
}
impl From<&str> for B {
    fn from(s: &str) -> Self {
        B(s.as_bytes().to_vec())
    }
}
impl From<&[u8]> for B {
    fn from(s: &[u8]) -> Self {
        B(s.to_vec())
    }
}

pub fn fnv(data: &[u8]) -> u64 {
    let mut h: u64 = 0xcbf29ce484222325;
    for &b in data {
        h ^= b as u64;
        h = h.wrapping_mul(0x100000001b3);
    }
    h
}
pub fn fnv_str(s: &str) -> u64 {
    fnv(s.as_bytes())
}

pub fn errno() -> i32 {
    unsafe { *libc::__errno_location() }
}

pub fn errno_name(e: i32) -> String {
    let n = match e {
        libc::EPERM => "EPERM",
        libc::ENOENT => "ENOENT",
        libc::EIO => "EIO",
        libc::ENXIO => "ENXIO",
        libc::EBADF => "EBADF",
        libc::EAGAIN => "EAGAIN",
        libc::ENOMEM => "ENOMEM",
        libc::EACCES => "EACCES",
        libc::EBUSY => "EBUSY",
        libc::EEXIST => "EEXIST",
        libc::EXDEV => "EXDEV",
        libc::ENOTDIR => "ENOTDIR",
        libc::EISDIR => "EISDIR",
        libc::EINVAL => "EINVAL",
        libc::ENFILE => "ENFILE",
        libc::EMFILE => "EMFILE",
        libc::ENOSPC => "ENOSPC",
        libc::EROFS => "EROFS",
        libc::EMLINK => "EMLINK",
        libc::ENAMETOOLONG => "ENAMETOOLONG",
        libc::ENOSYS => "ENOSYS",
        libc::ENOTEMPTY => "ENOTEMPTY",
        libc::ELOOP => "ELOOP",
        libc::EINTR => "EINTR",
        libc::EOPNOTSUPP => "EOPNOTSUPP",
        libc::ETXTBSY => "ETXTBSY",
        libc::ENODEV => "ENODEV",
        libc::EFBIG => "EFBIG",
        libc::EOVERFLOW => "EOVERFLOW",
        libc::ESRCH => "ESRCH",
        libc::E2BIG => "E2BIG",
        _ => return format!("E{}", e),
    };
    n.to_string()
}

// ---------------------------------------------------------------------------
// Raw syscalls used by the harness itself (never by the code under test).

#[repr(C)]
#[derive(Default, Clone, Copy)]
pub struct OpenHow {
    pub flags: u64,
    pub mode: u64,
    pub resolve: u64,
}

pub const RESOLVE_NO_XDEV: u64 = 0x01;
pub const RESOLVE_NO_MAGICLINKS: u64 = 0x02;
pub const RESOLVE_NO_SYMLINKS: u64 = 0x04;
pub const RESOLVE_BENEATH: u64 = 0x08;
pub const RESOLVE_IN_ROOT: u64 = 0x10;

/// Raw openat2, retried on EAGAIN (the tree is not being modified by anybody
/// else when the oracle runs; EAGAIN then only comes from unrelated renames
/// or mounts elsewhere on the system).
pub fn openat2_raw(dirfd: i32, path: &[u8], flags: u64, mode: u64, resolve: u64) -> Result<i32, i32> {
    if path.contains(&0) {
        return Err(libc::EINVAL);
    }
    let c = CString::new(path).unwrap();
    let how = OpenHow { flags: flags | libc::O_CLOEXEC as u64, mode, resolve };
    for _ in 0..256 {
        let r = unsafe {
            libc::syscall(
                libc::SYS_openat2,
                dirfd,
                c.as_ptr(),
                &how as *const OpenHow,
                std::mem::size_of::<OpenHow>(),
            )
        };
        if r >= 0 {
            return Ok(r as i32);
        }
        let e = errno();
        if e != libc::EAGAIN {
            return Err(e);
        }
    }
    Err(libc::EAGAIN)
}

pub fn openat_raw(dirfd: i32, path: &[u8], flags: i32, mode: u32) -> Result<i32, i32> {
    if path.contains(&0) {
        return Err(libc::EINVAL);
    }
    let c = CString::new(path).unwrap();
    let r = unsafe { libc::openat(dirfd, c.as_ptr(), flags | libc::O_CLOEXEC, mode) };
    if r >= 0 {
        Ok(r)
    } else {
        Err(errno())
    }
}

pub fn close(fd: i32) {
    if fd >= 0 {
        unsafe {
            libc::close(fd);
        }
    }
}

#[derive(Clone, Copy, Debug, PartialEq, Eq, Hash, PartialOrd, Ord, Serialize, Deserialize)]
pub struct Ident {
    pub dev: u64,
    pub ino: u64,
}

#[derive(Clone, Copy, Debug)]
pub struct St {
    pub id: Ident,
    pub mode: u32,
    pub uid: u32,
    pub gid: u32,
    pub size: u64,
    pub nlink: u64,
    pub rdev: u64,
    pub mtime_s: i64,
    pub mtime_ns: i64,
}

impl St {
    pub fn ftype(&self) -> u32 {
        self.mode & libc::S_IFMT
    }
    pub fn tname(&self) -> &'static str {
        ftype_name(self.ftype())
    }
}

pub fn ftype_name(t: u32) -> &'static str {
    match t {
        libc::S_IFDIR => "dir",
        libc::S_IFREG => "file",
        libc::S_IFLNK => "symlink",
        libc::S_IFIFO => "fifo",
        libc::S_IFCHR => "chr",
        libc::S_IFBLK => "blk",
        libc::S_IFSOCK => "sock",
        _ => "?",
    }
}

pub fn fstat(fd: i32) -> Result<St, i32> {
    let mut st: libc::stat = unsafe { std::mem::zeroed() };
    let r = unsafe { libc::fstat(fd, &mut st) };
    if r < 0 {
        return Err(errno());
    }
    Ok(conv_stat(&st))
}

fn conv_stat(st: &libc::stat) -> St {
    St {
        id: Ident { dev: st.st_dev as u64, ino: st.st_ino as u64 },
        mode: st.st_mode as u32,
        uid: st.st_uid,
        gid: st.st_gid,
        size: st.st_size as u64,
        nlink: st.st_nlink as u64,
        rdev: st.st_rdev as u64,
        mtime_s: st.st_mtime as i64,
        mtime_ns: st.st_mtime_nsec as i64,
    }
}

pub fn fstatat(dirfd: i32, name: &[u8], nofollow: bool) -> Result<St, i32> {
    if name.contains(&0) {
        return Err(libc::EINVAL);
    }
    let c = CString::new(name).unwrap();
    let mut st: libc::stat = unsafe { std::mem::zeroed() };
    let mut fl = 0;
    if nofollow {
        fl |= libc::AT_SYMLINK_NOFOLLOW;
    }
    if name.is_empty() {
        fl |= libc::AT_EMPTY_PATH;
    }
    let r = unsafe { libc::fstatat(dirfd, c.as_ptr(), &mut st, fl) };
    if r < 0 {
        return Err(errno());
    }
    Ok(conv_stat(&st))
}

pub fn readlinkat(dirfd: i32, name: &[u8]) -> Result<Vec<u8>, i32> {
    let c = CString::new(name).map_err(|_| libc::EINVAL)?;
    let mut buf = vec![0u8; 8192];
    let r = unsafe { libc::readlinkat(dirfd, c.as_ptr(), buf.as_mut_ptr() as *mut libc::c_char, buf.len()) };
    if r < 0 {
        return Err(errno());
    }
    buf.truncate(r as usize);
    Ok(buf)
}

pub fn fcntl_getfl(fd: i32) -> i32 {
    unsafe { libc::fcntl(fd, libc::F_GETFL) }
}
pub fn fcntl_getfd(fd: i32) -> i32 {
    unsafe { libc::fcntl(fd, libc::F_GETFD) }
}

pub fn fstatfs_type(fd: i32) -> Result<i64, i32> {
    let mut s: libc::statfs = unsafe { std::mem::zeroed() };
    let r = unsafe { libc::fstatfs(fd, &mut s) };
    if r < 0 {
        return Err(errno());
    }
    Ok(s.f_type as i64)
}

pub const PROC_SUPER_MAGIC: i64 = 0x9fa0;

/// statx mount id (unique if supported) of fd itself.
pub fn mnt_id(fd: i32) -> Option<u64> {
    let mut stx: libc::statx = unsafe { std::mem::zeroed() };
    let empty = CString::new("").unwrap();
    let r = unsafe {
        libc::statx(
            fd,
            empty.as_ptr(),
            libc::AT_EMPTY_PATH | libc::AT_SYMLINK_NOFOLLOW,
            0x1000 | 0x4000,
            &mut stx,
        )
    };
    if r < 0 {
        return None;
    }
    Some(stx.stx_mnt_id)
}

/// List a directory (by fd; a fresh description is opened so the offset of the
/// passed fd is not disturbed). Returns sorted names without "." and "..".
pub fn listdir(dirfd: i32) -> Result<Vec<Vec<u8>>, i32> {
    let fd = openat_raw(dirfd, b".", libc::O_RDONLY | libc::O_DIRECTORY, 0)?;
    let mut names = Vec::new();
    let mut buf = vec![0u8; 32768];
    loop {
        let n = unsafe { libc::syscall(libc::SYS_getdents64, fd, buf.as_mut_ptr(), buf.len()) };
        if n < 0 {
            let e = errno();
            close(fd);
            return Err(e);
        }
        if n == 0 {
            break;
        }
        let mut off = 0usize;
        while off < n as usize {
            let reclen = u16::from_ne_bytes([buf[off + 16], buf[off + 17]]) as usize;
            let name_start = off + 19;
            let mut end = name_start;
            while buf[end] != 0 {
                end += 1;
            }
            let name = &buf[name_start..end];
            if name != b"." && name != b".." {
                names.push(name.to_vec());
            }
            off += reclen;
        }
    }
    close(fd);
    names.sort();
    Ok(names)
}

pub fn read_all(fd: i32, max: usize) -> Vec<u8> {
    let mut out = Vec::new();
    let mut buf = [0u8; 4096];
    while out.len() < max {
        let n = unsafe { libc::read(fd, buf.as_mut_ptr() as *mut libc::c_void, buf.len()) };
        if n <= 0 {
            break;
        }
        out.extend_from_slice(&buf[..n as usize]);
    }
    out
}

pub fn mkdir_p(p: &Path) {
    std::fs::create_dir_all(p).unwrap_or_else(|e| panic!("mkdir_p {:?}: {}", p, e));
}

/// Remove a tree. Descriptor-relative (works for trees deeper than PATH_MAX),
/// never follows links.
pub fn rm_rf(p: &Path) {
    fn rm_at(dirfd: i32, name: &[u8], depth: usize) {
        let c = match CString::new(name) {
            Ok(c) => c,
            Err(_) => return,
        };
        if unsafe { libc::unlinkat(dirfd, c.as_ptr(), 0) } == 0 {
            return;
        }
        if unsafe { libc::unlinkat(dirfd, c.as_ptr(), libc::AT_REMOVEDIR) } == 0 {
            return;
        }
        if depth > 100_000 {
            return;
        }
        unsafe { libc::fchmodat(dirfd, c.as_ptr(), 0o700, 0) };
        if let Ok(fd) = openat_raw(dirfd, name, libc::O_RDONLY | libc::O_DIRECTORY | libc::O_NOFOLLOW, 0) {
            if let Ok(names) = listdir(fd) {
                for n in names {
                    rm_at(fd, &n, depth + 1);
                }
            }
            close(fd);
            unsafe { libc::unlinkat(dirfd, c.as_ptr(), libc::AT_REMOVEDIR) };
        }
    }
    let parent = p.parent().unwrap_or(Path::new("/"));
    let name = match p.file_name() {
        Some(n) => n,
        None => return,
    };
    if let Ok(pfd) = openat_raw(libc::AT_FDCWD, parent.as_os_str().as_bytes(), libc::O_RDONLY | libc::O_DIRECTORY, 0) {
        // deep trees need a deep stack
        let name = name.as_bytes().to_vec();
        let h = std::thread::Builder::new().stack_size(256 << 20).spawn(move || {
            rm_at(pfd, &name, 0);
            close(pfd);
        });
        if let Ok(h) = h {
            let _ = h.join();
        }
    }
}

pub fn now_s() -> f64 {
    let mut ts: libc::timespec = unsafe { std::mem::zeroed() };
    unsafe { libc::clock_gettime(libc::CLOCK_MONOTONIC, &mut ts) };
    ts.tv_sec as f64 + ts.tv_nsec as f64 * 1e-9
}

pub fn gettid() -> i32 {
    unsafe { libc::syscall(libc::SYS_gettid) as i32 }
}
