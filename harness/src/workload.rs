//! A generic workload (tree + sequence of library calls of every kind) run
//! under the observing gate. Shared by C05 (syscall discipline), C11
//! (descriptor table) and C10 (fault injection).

use crate::capi::*;
use crate::exec::*;
use crate::gate::*;
use crate::gen::*;
use crate::ops::*;
use crate::sandbox::*;
use crate::util::*;
use pathrs::flags::OpenFlags;
use pathrs::procfs::{ProcfsBase, ProcfsHandle};
use pathrs::Handle;
use proptest::collection::vec;
use proptest::prelude::*;
use serde::{Deserialize, Serialize};
use std::os::unix::io::{AsRawFd, FromRawFd, OwnedFd};

#[derive(Clone, Copy, Debug, PartialEq, Eq, Hash, Serialize, Deserialize)]
pub enum PBase {
    Root,
    SelfBase,
    ThreadSelf,
}

impl PBase {
    pub fn rust(&self) -> ProcfsBase {
        match self {
            PBase::Root => ProcfsBase::ProcRoot,
            PBase::SelfBase => ProcfsBase::ProcSelf,
            PBase::ThreadSelf => ProcfsBase::ProcThreadSelf,
        }
    }
    pub fn c(&self) -> u64 {
        match self {
            PBase::Root => PATHRS_PROC_ROOT,
            PBase::SelfBase => PATHRS_PROC_SELF,
            PBase::ThreadSelf => PATHRS_PROC_THREAD_SELF,
        }
    }
}

#[derive(Clone, Debug, PartialEq, Eq, Hash, Serialize, Deserialize)]
pub enum WStep {
    Root { op: Op, capi: bool },
    /// resolve `path` (nofollow if asked) and reopen the handle
    Reopen { path: B, nofollow: bool, flags: i32, capi: bool },
    ProcOpen { base: PBase, path: B, flags: i32, follow: bool, capi: bool },
    ProcReadlink { base: PBase, path: B, capi: bool },
    /// Root::open / pathrs_open_root itself
    OpenRoot { capi: bool },
    TryClone,
}

impl WStep {
    pub fn brief(&self) -> String {
        match self {
            WStep::Root { op, capi } => format!("{}{}", op.brief(), if *capi { " [C]" } else { "" }),
            WStep::Reopen { path, nofollow, flags, capi } => format!("resolve{}(\"{}\").reopen(0x{:x}){}", if *nofollow { "_nofollow" } else { "" }, path, flags, if *capi { " [C]" } else { "" }),
            WStep::ProcOpen { base, path, flags, follow, capi } => format!("proc.{}({:?}, \"{}\", 0x{:x}){}", if *follow { "open_follow" } else { "open" }, base, path, flags, if *capi { " [C]" } else { "" }),
            WStep::ProcReadlink { base, path, capi } => format!("proc.readlink({:?}, \"{}\"){}", base, path, if *capi { " [C]" } else { "" }),
            WStep::OpenRoot { capi } => format!("Root::open(root){}", if *capi { " [C]" } else { "" }),
            WStep::TryClone => "root.try_clone()".into(),
        }
    }
    pub fn name(&self) -> String {
        match self {
            WStep::Root { op, .. } => op.name().to_string(),
            WStep::Reopen { .. } => "reopen".into(),
            WStep::ProcOpen { follow, .. } => if *follow { "proc_open_follow".into() } else { "proc_open".into() },
            WStep::ProcReadlink { .. } => "proc_readlink".into(),
            WStep::OpenRoot { .. } => "open_root".into(),
            WStep::TryClone => "try_clone".into(),
        }
    }
}

#[derive(Clone, Debug, Serialize, Deserialize)]
pub struct WCase {
    pub tree: TreeSpec,
    pub kcfg: Kcfg,
    pub no_symlinks: bool,
    pub steps: Vec<WStep>,
}

pub const PROC_PATHS: &[(&str, u8)] = &[
    // (path, bases it makes sense for: bit0 root, bit1 self, bit2 thread-self)
    ("status", 6),
    ("stat", 7),
    ("fd", 6),
    ("fd/0", 6),
    ("cwd", 6),
    ("root", 6),
    ("exe", 6),
    ("ns/mnt", 6),
    ("environ", 6),
    ("net", 7),
    ("attr/current", 6),
    ("uptime", 1),
    ("sys/kernel/ostype", 1),
    ("self", 1),
    ("thread-self", 1),
    ("mounts", 1),
    ("missing", 7),
    ("fd/999", 6),
    ("status/", 6),
    ("", 7),
    (".", 7),
    ("fd/../status", 6),
    ("root/etc", 6),
    ("cwd/..", 6),
    ("task", 2),
];

pub fn proc_step() -> impl Strategy<Value = WStep> {
    (0usize..PROC_PATHS.len(), 0u8..3, 0u8..8, any::<bool>(), any::<bool>(), any::<bool>()).prop_map(|(pi, b, fl, follow, readlink, capi)| {
        let (p, mask) = PROC_PATHS[pi];
        let mut base = match b {
            0 => PBase::Root,
            1 => PBase::SelfBase,
            _ => PBase::ThreadSelf,
        };
        let bit = |b: PBase| match b {
            PBase::Root => 1,
            PBase::SelfBase => 2,
            PBase::ThreadSelf => 4,
        };
        if mask & bit(base) == 0 {
            base = if mask & 2 != 0 { PBase::SelfBase } else { PBase::Root };
        }
        let flags = match fl {
            0 => libc::O_RDONLY,
            1 => libc::O_PATH,
            2 => libc::O_RDONLY | libc::O_DIRECTORY,
            3 => libc::O_PATH | libc::O_NOFOLLOW,
            4 => libc::O_RDONLY | libc::O_NOFOLLOW,
            5 => libc::O_RDONLY | libc::O_CLOEXEC,
            6 => libc::O_PATH | libc::O_DIRECTORY,
            _ => libc::O_RDONLY | libc::O_NONBLOCK,
        };
        if readlink {
            WStep::ProcReadlink { base, path: B::new(p), capi }
        } else {
            WStep::ProcOpen { base, path: B::new(p), flags, follow, capi }
        }
    })
}

#[derive(Clone, Debug)]
pub enum WRecipe {
    Root(OpRecipe, bool),
    Reopen(PathRecipe, bool, i32, bool),
    Proc(WStep),
    OpenRoot(bool),
    TryClone,
}

pub fn reopen_flags() -> impl Strategy<Value = i32> {
    prop_oneof![
        8 => open_flags(),
        1 => Just(libc::O_RDONLY | libc::O_DIRECTORY),
        1 => Just(libc::O_WRONLY | libc::O_APPEND | libc::O_NONBLOCK),
    ]
}

pub fn wrecipe() -> impl Strategy<Value = WRecipe> {
    prop_oneof![
        20 => (op_recipe(), prop_oneof![3 => Just(false), 1 => Just(true)]).prop_map(|(o, c)| WRecipe::Root(o, c)),
        4 => (path_recipe(), any::<bool>(), reopen_flags(), any::<bool>()).prop_map(|(p, n, f, c)| WRecipe::Reopen(p, n, f, c)),
        5 => proc_step().prop_map(WRecipe::Proc),
        1 => any::<bool>().prop_map(WRecipe::OpenRoot),
        1 => Just(WRecipe::TryClone),
    ]
}

pub fn build_wstep(tree: &TreeSpec, r: &WRecipe, no_symlinks: bool) -> WStep {
    match r {
        WRecipe::Root(o, capi) => WStep::Root { op: build_op(tree, o), capi: *capi && !no_symlinks },
        WRecipe::Reopen(p, n, f, c) => WStep::Reopen { path: build_path(tree, p), nofollow: *n, flags: *f, capi: *c && !no_symlinks },
        WRecipe::Proc(s) => s.clone(),
        WRecipe::OpenRoot(c) => WStep::OpenRoot { capi: *c },
        WRecipe::TryClone => WStep::TryClone,
    }
}

pub fn kcfg_any() -> impl Strategy<Value = Kcfg> {
    prop_oneof![
        2 => Just(Kcfg::Full),
        2 => Just(Kcfg::NoOpenat2),
        1 => Just(Kcfg::NoFsopen),
        3 => Just(Kcfg::NoMountApi),
        3 => Just(Kcfg::NoOpenat2NoMountApi),
        1 => Just(Kcfg::NoOpenat2NoFsopen),
    ]
}

pub fn wcase(max_steps: usize) -> impl Strategy<Value = WCase> {
    (tree_recipe(12), kcfg_any(), prop_oneof![4 => Just(false), 1 => Just(true)], vec(wrecipe(), 1..=max_steps)).prop_map(|(tr, kcfg, no_symlinks, rs)| {
        let tree = build_tree(&tr);
        let steps = rs.iter().map(|r| build_wstep(&tree, r, no_symlinks)).collect();
        WCase { tree, kcfg, no_symlinks, steps }
    })
}

#[derive(Clone, Debug, Serialize, Deserialize)]
pub struct StepRec {
    pub out: Out,
    pub call: Option<CallRec>,
    /// descriptor number returned to the caller (still open while fds_after was taken)
    pub ret_fd: Option<i32>,
    /// descriptors lent to the call: (fd, identity before)
    pub lent: Vec<(i32, Ident)>,
    /// identities of those descriptors after the call (None: no longer open)
    pub lent_after: Vec<Option<Ident>>,
}

#[derive(Clone, Debug, Serialize, Deserialize)]
pub struct WReport {
    pub steps: Vec<StepRec>,
    pub sandbox_dev: u64,
    pub root_path: String,
    pub fatal: Option<String>,
}

/// Execute one step on the worker thread, inside a gate bracket. Everything
/// the call created except the returned object is dropped before `exit`.
pub fn exec_wstep(wg: &WorkerGate, st: &mut WState, id: u32, step: &WStep, rootpath: &std::path::Path, no_symlinks: bool) -> (Out, Option<OwnedFd>, Vec<(i32, Ident)>) {
    let rootfd: Option<(i32, Ident)> = st.root.as_ref().and_then(|r| {
        use std::os::unix::io::AsFd;
        let fd = r.as_fd().as_raw_fd();
        fstat(fd).ok().map(|s| (fd, s.id))
    });
    match step {
        WStep::Root { op, capi } => {
            let root = st.root.as_ref().expect("root");
            wg.enter(id);
            let (o, fd) = exec_op(root, op, *capi);
            wg.exit();
            (o, fd, rootfd.into_iter().collect())
        }
        WStep::Reopen { path, nofollow, flags, capi } => {
            let root = st.root.as_ref().expect("root");
            // the resolve is preparation, not the call under observation
            let h: Result<Handle, Out> = guarded(|| if *nofollow { root.resolve_nofollow(path.as_path()) } else { root.resolve(path.as_path()) });
            match h {
                Err(o) => (o, None, vec![]),
                Ok(h) => {
                    use std::os::unix::io::AsFd;
                    let hfd = h.as_fd().as_raw_fd();
                    let hid = fstat(hfd).map(|s| s.id).unwrap_or(Ident { dev: 0, ino: 0 });
                    wg.enter(id);
                    let (o, fd) = if *capi {
                        let r = unsafe { pathrs_reopen(hfd, *flags) };
                        let (o, fd) = c_out(r, true);
                        (o, fd.map(|f| unsafe { OwnedFd::from_raw_fd(f) }))
                    } else {
                        match guarded(|| h.reopen(OpenFlags::from_bits_retain(*flags))) {
                            Ok(f) => {
                                let fd = OwnedFd::from(f);
                                (Out::Fd(Obj::of_fd(fd.as_raw_fd())), Some(fd))
                            }
                            Err(o) => (o, None),
                        }
                    };
                    wg.exit();
                    // keep the handle alive past the audit by parking it
                    st.fds.push(Some(OwnedFd::from(h)));
                    (o, fd, vec![(hfd, hid)])
                }
            }
        }
        WStep::ProcOpen { base, path, flags, follow, capi } => {
            if st.procfs.is_none() && !*capi {
                st.procfs = guarded(ProcfsHandle::new).ok();
            }
            wg.enter(id);
            let (o, fd) = if *capi {
                let mut fl = *flags;
                if !*follow {
                    fl |= libc::O_NOFOLLOW;
                } else {
                    fl &= !libc::O_NOFOLLOW;
                }
                let r = unsafe { pathrs_proc_open(base.c(), cpath(path).as_ptr(), fl) };
                let (o, fd) = c_out(r, true);
                (o, fd.map(|f| unsafe { OwnedFd::from_raw_fd(f) }))
            } else {
                match st.procfs.as_ref() {
                    None => (Out::Err { kind: "no-procfs-handle".into(), errno: None }, None),
                    Some(p) => {
                        let r = guarded(|| if *follow { p.open_follow(base.rust(), path.as_path(), OpenFlags::from_bits_retain(*flags)) } else { p.open(base.rust(), path.as_path(), OpenFlags::from_bits_retain(*flags)) });
                        match r {
                            Ok(f) => {
                                let fd = OwnedFd::from(f);
                                (Out::Fd(Obj::of_fd(fd.as_raw_fd())), Some(fd))
                            }
                            Err(o) => (o, None),
                        }
                    }
                }
            };
            wg.exit();
            (o, fd, vec![])
        }
        WStep::ProcReadlink { base, path, capi } => {
            if st.procfs.is_none() && !*capi {
                st.procfs = guarded(ProcfsHandle::new).ok();
            }
            wg.enter(id);
            let o = if *capi {
                let mut buf = vec![0u8; 4096];
                let r = unsafe { pathrs_proc_readlink(base.c(), cpath(path).as_ptr(), buf.as_mut_ptr() as *mut libc::c_char, buf.len()) };
                if r >= 0 {
                    buf.truncate((r as usize).min(4096));
                    Out::Bytes(B(buf))
                } else {
                    c_out(r, false).0
                }
            } else {
                match st.procfs.as_ref() {
                    None => Out::Err { kind: "no-procfs-handle".into(), errno: None },
                    Some(p) => match guarded(|| p.readlink(base.rust(), path.as_path())) {
                        Ok(pb) => Out::Bytes(B::new(pb.as_os_str().as_encoded_bytes())),
                        Err(o) => o,
                    },
                }
            };
            wg.exit();
            (o, None, vec![])
        }
        WStep::OpenRoot { capi } => {
            wg.enter(id);
            let (o, fd) = if *capi {
                let c = std::ffi::CString::new(rootpath.as_os_str().as_encoded_bytes()).unwrap();
                let r = unsafe { pathrs_open_root(c.as_ptr()) };
                let (o, fd) = c_out(r, true);
                (o, fd.map(|f| unsafe { OwnedFd::from_raw_fd(f) }))
            } else {
                match open_root(rootpath, no_symlinks) {
                    Ok(r) => {
                        let fd = OwnedFd::from(r);
                        (Out::Fd(Obj::of_fd(fd.as_raw_fd())), Some(fd))
                    }
                    Err(o) => (o, None),
                }
            };
            wg.exit();
            (o, fd, vec![])
        }
        WStep::TryClone => {
            let root = st.root.as_ref().expect("root");
            wg.enter(id);
            let (o, fd) = match guarded(|| root.try_clone()) {
                Ok(r) => {
                    let fd = OwnedFd::from(r);
                    (Out::Fd(Obj::of_fd(fd.as_raw_fd())), Some(fd))
                }
                Err(o) => (o, None),
            };
            wg.exit();
            (o, fd, rootfd.into_iter().collect())
        }
    }
}

/// Run the whole workload in this (child) process.
pub fn run_workload(case: &WCase, mut policy: Policy, tag: &str, warm: bool) -> WReport {
    let sb = Sandbox::create(tag);
    sb.materialise(&case.tree, &sb.root());
    let sandbox_dev = fstatat(libc::AT_FDCWD, sb.root().as_os_str().as_encoded_bytes(), true).map(|s| s.id.dev).unwrap_or(0);
    let rootpath = sb.root();
    policy.audit_fds = true;
    let rep = with_session(case.kcfg, Some(policy), |s| {
        let ro = s.run(|_wg, st| match open_root(&rootpath, case.no_symlinks) {
            Ok(r) => {
                st.root = Some(r);
                None
            }
            Err(o) => Some(o),
        });
        if let Some(o) = ro {
            return WReport { steps: vec![], sandbox_dev, root_path: rootpath.to_string_lossy().to_string(), fatal: Some(format!("Root::open failed: {}", o.brief())) };
        }
        if warm {
            // force the library's process-lifetime state (procfs handle,
            // feature probes, sysctl cache) into existence outside any bracket
            s.run(|_wg, st| {
                let root = st.root.as_ref().unwrap();
                let _ = guarded(|| root.resolve(".")).map(|h| {
                    let _ = guarded(|| h.reopen(OpenFlags::O_RDONLY));
                });
                unsafe {
                    let r = pathrs_proc_readlink(PATHRS_PROC_SELF, b"cwd\0".as_ptr() as *const libc::c_char, std::ptr::null_mut(), 0);
                    if r < 0 {
                        let _ = take_error(r);
                    }
                }
            });
        }
        let mut steps = Vec::new();
        for (i, step) in case.steps.iter().enumerate() {
            let (out, ret_fd, lent, lent_after) = s.run(|wg, st| {
                let (out, fd, lent_before) = exec_wstep(wg, st, i as u32, step, &rootpath, case.no_symlinks);
                let lent_after: Vec<Option<Ident>> = lent_before.iter().map(|&(f, _)| fstat(f).ok().map(|s| s.id)).collect();
                let ret = fd.as_ref().map(|f| f.as_raw_fd());
                // the supervisor audited the table at exit_keep(); now release
                drop(fd);
                st.fds.clear();
                (out, ret, lent_before, lent_after)
            });
            let call = s.take_calls().into_iter().find(|c| c.id == i as u32);
            steps.push(StepRec { out, call, ret_fd, lent, lent_after });
        }
        s.run(|_wg, st| {
            st.root = None;
            st.procfs = None;
        });
        WReport { steps, sandbox_dev, root_path: rootpath.to_string_lossy().to_string(), fatal: None }
    });
    sb.destroy();
    rep
}
